#!/bin/sh
# builds the engine from files on disk only (offline)
set -e
cd "$(dirname "$0")/engine"
export GOFLAGS=-mod=mod GOPROXY=off GOSUMDB=off GOTOOLCHAIN=local
go build -o ../bin/verif ./cmd/verif
