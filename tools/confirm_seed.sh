#!/bin/bash
# confirm_seed.sh <seed dir>: in a scratch worktree of /repo (HEAD): apply patch -> build -> tests of touched
# packages pass -> demo fails; revert -> demo passes. Prints CONFIRMED or the failing step.
set -u
export GOFLAGS=-mod=mod GOPROXY=off GOSUMDB=off GOTOOLCHAIN=local
d=$(realpath "$1"); wt=$(mktemp -d /tmp/confirm.XXXXXX); rmdir "$wt"
git -C /repo worktree add --detach -q "$wt" HEAD || exit 2
cleanup() { git -C /repo worktree remove --force "$wt" >/dev/null 2>&1; rm -rf "$wt"; }
trap cleanup EXIT
cd "$wt"
demo_rel=$(cat "$d/DEMO_PATH.txt" | head -1 | tr -d '\r\n ')
demo_src=$(ls "$d"/zz_seed_demo_test.go "$d"/demo/main.go 2>/dev/null | head -1)
[ -z "$demo_src" ] && { echo "NO DEMO in $d"; exit 2; }
case "$demo_rel" in *.go) ;; *) demo_rel="$demo_rel/$(basename $demo_src)";; esac
git apply --check "$d/patch.diff" || { echo "PATCH DOES NOT APPLY"; exit 2; }
git apply "$d/patch.diff"
pkgs=$(git diff --name-only | xargs -n1 dirname | sort -u | sed 's#^#./#')
go build ./... || { echo "BUILD FAILED"; exit 2; }
if ! go test -vet=off -count=1 $pkgs > "$wt/pkgtests.log" 2>&1; then tail -20 "$wt/pkgtests.log"; echo "EXISTING TESTS FAIL WITH PATCH ($pkgs)"; exit 2; fi
mkdir -p "$(dirname $demo_rel)"; cp "$demo_src" "$demo_rel"
demopkg=./$(dirname $demo_rel)
if go test -vet=off -count=1 -run 'Seed|Demo' $demopkg > "$wt/demo1.log" 2>&1; then echo "DEMO PASSES WITH PATCH (should fail)"; tail -5 "$wt/demo1.log"; exit 2; fi
grep -q "build failed\|cannot find\|undefined:" "$wt/demo1.log" && { tail "$wt/demo1.log"; echo "DEMO DOES NOT BUILD"; exit 2; }
git apply -R "$d/patch.diff"
if ! go test -vet=off -count=1 -run 'Seed|Demo' $demopkg > "$wt/demo2.log" 2>&1; then echo "DEMO FAILS WITHOUT PATCH"; tail -20 "$wt/demo2.log"; exit 2; fi
echo "CONFIRMED $(basename $d): touched=[$pkgs] demo=$demo_rel"
