#!/usr/bin/env python3
"""Applies every seeded change to /repo in turn, runs the quick tier of the listed checks and records
which of them report a violation (seeded/RESULTS.json). /repo is restored after each seed."""
import json, os, subprocess, sys, glob, re
V='/verif'
extra={'C01-m2':['C12'],'C01-m4':['C12'],'C02-m2':['C06'],'C02-m4':['C06'],'C08-m4':['C03'],'C01-m5':['C12'],'C01-m6':['C12'],'C17-m2':['C11'],'C02-m5':['C06']}
only=sys.argv[1:]
res={}
rp=f'{V}/seeded/RESULTS.json'
if os.path.exists(rp): res=json.load(open(rp))
def sh(cmd,**kw): return subprocess.run(cmd,shell=True,capture_output=True,text=True,**kw)
assert sh('git -C /repo status --short').stdout.strip()=='', '/repo not clean'
for d in sorted(glob.glob(f'{V}/seeded/C*-m*')):
    sid=os.path.basename(d)
    if only and sid not in only: continue
    meta=json.load(open(f'{d}/meta.json'))
    pid=sid.split('-')[0]
    if meta.get('superseded'):
        res[sid]={'summary':meta.get('summary',''),'checks':{},'superseded':meta['superseded']}
        json.dump(res,open(rp,'w'),indent=1,sort_keys=True)
        print(sid,'superseded'); continue
    r=sh(f'git -C /repo apply {d}/patch.diff')
    if r.returncode!=0:
        res[sid]={'summary':meta.get('summary',''),'checks':{},'error':'patch does not apply: '+r.stderr[:200]}
        print(sid,'PATCH FAILED'); continue
    entry={'summary':meta.get('summary',''),'checks':{}}
    try:
        for cid in [pid]+extra.get(sid,[]):
            p=sh(f'timeout 3000 {V}/bin/verif check -tier quick {cid}',cwd=V)
            viol=[l for l in p.stdout.splitlines() if l.startswith('VIOLATION')]
            labels=re.findall(r'assertion "([^"]+)" fails',p.stdout)
            entry['checks'][cid]='caught' if (p.returncode==1 and viol) else ('error' if p.returncode not in (0,1) else 'not caught')
            if viol and 'label' not in entry and labels: entry['label']=labels[0]
            print(sid,cid,entry['checks'][cid],labels[:1],flush=True)
    finally:
        sh('git -C /repo checkout -- .'); sh(f'git -C {V} checkout -- evidence'); sh(f'rm -rf {V}/replays')
    old=res.get(sid,{})
    if 'why_missed' in old: entry['why_missed']=old['why_missed']
    res[sid]=entry
    json.dump(res,open(rp,'w'),indent=1,sort_keys=True)
