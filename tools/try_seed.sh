#!/bin/bash
# try_seed.sh <seed dir> <check id>... : apply the seeded change to /repo, run the quick checks, undo.
set -u
d=$(realpath "$1"); shift
cd /verif
git -C /repo diff --quiet || { echo "/repo is dirty"; exit 2; }
git -C /repo apply "$d/patch.diff" || exit 2
for id in "$@"; do
  out=$(timeout 1500 bin/verif check $id --tier ${TIER:-quick} 2>&1); code=$?
  echo "== $(basename $d) vs $id: exit=$code"
  echo "$out" | grep -E "VIOLATION|UNCONFIRMED|INCONCLUSIVE|assertion " | head -8
done
git -C /repo checkout -- . ; git -C /repo status --short | head -3
git -C /verif checkout -- evidence 2>/dev/null
