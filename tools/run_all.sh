#!/bin/bash
# usage: tools/run_all.sh [quick|thorough] [ids…]  — runs the registered checks one after another, logs under /tmp/verif-all
tier=${1:-quick}; shift
ids=${@:-C01 C02 C03 C04 C05 C06 C07 C08 C09 C10 C11 C12 C13 C14 C15 C16 C17 C18 C19 C20}
mkdir -p /tmp/verif-all
for id in $ids; do
  timeout 5400 /verif/bin/verif check -tier $tier $id > /tmp/verif-all/$id.$tier.log 2>&1
  echo "$id exit=$? $(tail -1 /tmp/verif-all/$id.$tier.log | cut -c1-200)"
done
