//go:build verif

package keystore

// VerifKeyStore / VerifKeyStoreErr are what the engine-side replacement of the PEM file loader returns
// (natively real PEM files are read).
var (
	VerifKeyStore    []*Entry
	VerifKeyStoreErr error
)

func verifStub_NewKeyStoreFromPEMFile(string, string) (KeyStore, error) {
	if VerifKeyStoreErr != nil {
		return nil, VerifKeyStoreErr
	}
	return keyStore(VerifKeyStore), nil
}
