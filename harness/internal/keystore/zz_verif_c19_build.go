//go:build verif

package keystore

import (
	"crypto"
	"crypto/ecdh"
	"crypto/ecdsa"
	"crypto/ed25519"
	"crypto/elliptic"
	"crypto/rand"
	"crypto/x509"
	"crypto/x509/pkix"
	"encoding/pem"
	"errors"
	"fmt"
	"math/big"
	"time"

	"github.com/dadrus/heimdall/internal/verifapi"
)

// ---------------------------------------------------------------------------
// C19 (key store material): whatever sequence of PEM blocks a (re)loaded key store file contains —
// supported and unsupported key kinds, undecodable keys, unknown block types, certificates in any
// order, duplicated, self-signed or certifying each other — building the key store returns a key
// store or an error; it never panics and never recurses without end.
// DER parsing is cut: in the engine the parse functions hand out objects from the catalogue below;
// natively the same catalogue is generated with crypto/x509 and really encoded.
// ---------------------------------------------------------------------------

type vCurve struct{ bits int }

func (c vCurve) Params() *elliptic.CurveParams                        { return &elliptic.CurveParams{BitSize: c.bits} }
func (c vCurve) IsOnCurve(*big.Int, *big.Int) bool                    { return true }
func (c vCurve) Add(x, y, _, _ *big.Int) (*big.Int, *big.Int)         { return x, y }
func (c vCurve) Double(x, y *big.Int) (*big.Int, *big.Int)            { return x, y }
func (c vCurve) ScalarMult(x, y *big.Int, _ []byte) (*big.Int, *big.Int) { return x, y }
func (c vCurve) ScalarBaseMult([]byte) (*big.Int, *big.Int)           { return nil, nil }

// names: 0 = end entity (owner of key k0), 1 = CA1, 2 = CA2
type vCertDesc struct{ subject, issuer byte }

var vC19Certs = []vCertDesc{
	{0, 1}, // end entity certificate issued by CA1
	{0, 0}, // self-signed end entity certificate
	{1, 1}, // CA1 self-signed
	{1, 2}, // CA1 certified by CA2 (cross certificate)
	{2, 1}, // CA2 certified by CA1 (cross certificate)
	{2, 2}, // CA2 self-signed
}

const (
	vBlkKeyP256 = iota
	vBlkKeyP384
	vBlkKeyEd25519
	vBlkKeyX25519
	vBlkKeyGarbage
	vBlkUnknownType
	vBlkFirstCert
)

var vC19Public [3]*ecdsa.PublicKey // engine: the public keys of the three names (identity = key)

func VerifParsePKCS8PrivateKey(der []byte) (any, error) {
	switch int(der[0]) {
	case vBlkKeyP256:
		return &ecdsa.PrivateKey{PublicKey: *vC19Public[0]}, nil
	case vBlkKeyP384:
		return &ecdsa.PrivateKey{PublicKey: ecdsa.PublicKey{Curve: vCurve{384}, X: new(big.Int), Y: new(big.Int)}}, nil
	case vBlkKeyEd25519:
		return ed25519.PrivateKey(make([]byte, ed25519.PrivateKeySize)), nil
	case vBlkKeyX25519:
		return new(ecdh.PrivateKey), nil
	}
	return nil, errors.New("x509: failed to parse private key")
}

func VerifParseCertificate(der []byte) (*x509.Certificate, error) {
	d := vC19Certs[int(der[0])-vBlkFirstCert]
	return &x509.Certificate{Raw: []byte{der[0]}, RawSubject: []byte{d.subject}, RawIssuer: []byte{d.issuer}, PublicKey: vC19Public[d.subject]}, nil
}

// public keys are equal iff they are the same key of the catalogue
func VerifECPublicKeyEqual(pub *ecdsa.PublicKey, x crypto.PublicKey) bool {
	xx, ok := x.(*ecdsa.PublicKey)
	return ok && pub.X == xx.X
}

func VerifC19KeyStoreBuild() {
	n := 1 + verifapi.NondetChoice("blocks", verifapi.Bound("max_blocks", 3))
	kinds := make([]int, n)
	for i := range kinds {
		if i == 0 && verifapi.Bound("first_block_is_the_p256_key", 0) == 1 {
			kinds[i] = vBlkKeyP256
			continue
		}
		kinds[i] = verifapi.NondetChoice("block.kind", vBlkFirstCert+len(vC19Certs))
	}

	var ks KeyStore
	var err error
	crashed := ""
	run := func(f func() (KeyStore, error)) {
		defer func() {
			if r := recover(); r != nil {
				crashed = fmt.Sprint(r)
			}
		}()
		ks, err = f()
	}
	if verifapi.Symbolic() {
		for i := range vC19Public {
			vC19Public[i] = &ecdsa.PublicKey{Curve: vCurve{256}, X: new(big.Int), Y: new(big.Int)}
		}
		var blocks []*pem.Block
		for _, k := range kinds {
			b := &pem.Block{Type: "PRIVATE KEY", Bytes: []byte{byte(k)}, Headers: map[string]string{"X-Key-ID": fmt.Sprintf("key-%d", k)}}
			switch {
			case k == vBlkUnknownType:
				b.Type = "PUBLIC KEY"
			case k >= vBlkFirstCert:
				b.Type, b.Headers = "CERTIFICATE", nil
			}
			blocks = append(blocks, b)
		}
		run(func() (KeyStore, error) { return createKeyStore(blocks, "") })
	} else {
		data := vC19NativePEM(kinds)
		run(func() (KeyStore, error) { return NewKeyStoreFromPEMBytes(data, "") })
	}
	verifapi.Cover("returned")
	verifapi.Observe("crashed", crashed)
	verifapi.Assert("C19/keystore/building-never-crashes", crashed == "")
	if err == nil && crashed == "" {
		seen := map[string]bool{}
		for _, e := range ks.Entries() {
			verifapi.Assert("C19/keystore/entries-have-distinct-ids", e.KeyID != "" && !seen[e.KeyID])
			seen[e.KeyID] = true
			verifapi.Assert("C19/keystore/entries-hold-a-signing-key", e.PrivateKey != nil && (e.Alg == AlgECDSA || e.Alg == AlgRSA))
		}
	}
}

// vC19NativePEM encodes the chosen blocks for real.
func vC19NativePEM(kinds []int) []byte {
	gen := func(c elliptic.Curve) *ecdsa.PrivateKey {
		k, err := ecdsa.GenerateKey(c, rand.Reader)
		if err != nil {
			panic(err)
		}
		return k
	}
	owners := [3]*ecdsa.PrivateKey{gen(elliptic.P256()), gen(elliptic.P256()), gen(elliptic.P256())}
	names := [3]string{"end entity", "CA1", "CA2"}
	tmpl := func(who byte) *x509.Certificate {
		return &x509.Certificate{SerialNumber: big.NewInt(int64(who) + 1), Subject: pkix.Name{CommonName: names[who]},
			NotBefore: time.Now().Add(-time.Hour), NotAfter: time.Now().Add(time.Hour), IsCA: who != 0, BasicConstraintsValid: true,
			KeyUsage: x509.KeyUsageCertSign | x509.KeyUsageDigitalSignature}
	}
	var out []byte
	add := func(typ string, der []byte, kid string) {
		b := &pem.Block{Type: typ, Bytes: der}
		if kid != "" {
			b.Headers = map[string]string{"X-Key-ID": kid}
		}
		out = append(out, pem.EncodeToMemory(b)...)
	}
	for _, k := range kinds {
		kid := fmt.Sprintf("key-%d", k)
		switch {
		case k == vBlkKeyP256:
			der, _ := x509.MarshalPKCS8PrivateKey(owners[0])
			add("PRIVATE KEY", der, kid)
		case k == vBlkKeyP384:
			der, _ := x509.MarshalPKCS8PrivateKey(gen(elliptic.P384()))
			add("PRIVATE KEY", der, kid)
		case k == vBlkKeyEd25519:
			_, priv, _ := ed25519.GenerateKey(rand.Reader)
			der, _ := x509.MarshalPKCS8PrivateKey(priv)
			add("PRIVATE KEY", der, kid)
		case k == vBlkKeyX25519:
			priv, _ := ecdh.X25519().GenerateKey(rand.Reader)
			der, _ := x509.MarshalPKCS8PrivateKey(priv)
			add("PRIVATE KEY", der, kid)
		case k == vBlkKeyGarbage:
			add("PRIVATE KEY", []byte{0x30, 0x03, 0x02, 0x01}, kid)
		case k == vBlkUnknownType:
			add("PUBLIC KEY", []byte{0x30, 0x00}, kid)
		default:
			d := vC19Certs[k-vBlkFirstCert]
			der, err := x509.CreateCertificate(rand.Reader, tmpl(d.subject), tmpl(d.issuer), &owners[d.subject].PublicKey, owners[d.issuer])
			if err != nil {
				panic(err)
			}
			add("CERTIFICATE", der, "")
		}
	}
	return out
}
