//go:build verif

package rules

import (
	"encoding/base64"
	"strings"

	"github.com/dadrus/heimdall/internal/heimdall"
	"github.com/dadrus/heimdall/internal/rules/mechanisms/authenticators"
	"github.com/dadrus/heimdall/internal/verifapi"
)

// ---------------------------------------------------------------------------
// C04: chains of REAL authenticators (jwt, basic_auth, anonymous, unauthorized) through the real
// composite: the next authenticator is consulted only after "no credentials of its kind" or an
// explicit allow_fallback_on_error.
// ---------------------------------------------------------------------------

type vReqFuncs struct{ headers map[string]string }

func (r vReqFuncs) Header(name string) string   { return r.headers[name] }
func (r vReqFuncs) Cookie(string) string         { return "" }
func (r vReqFuncs) Headers() map[string]string   { return r.headers }
func (r vReqFuncs) Body() any                    { return "" }

// classes of what an authenticator makes of a request
const (
	vNoCredentials = iota // nothing of its kind in the request
	vRejected             // found credentials and rejected them
	vSucceeds
	vInfrastructure // could not decide (key set endpoint unreachable): an error, not "no credentials"
)

func VerifC04Chain() {
	const user, password = "alice", "secret"
	// ---- the request's Authorization header ----
	basic := func(s string) string { return "Basic " + base64.StdEncoding.EncodeToString([]byte(s)) }
	jwtSetup := authenticators.VerifJWTSetup{Parsable: true, SigValid: true, TrustedIssue: true}
	authz, basicClass, jwtClass := "", vNoCredentials, vNoCredentials
	switch verifapi.NondetChoice("request.authorization", 13) {
	case 0: // no header
	case 1:
		authz, basicClass = basic(user+":"+password), vSucceeds
	case 2:
		authz, basicClass = basic(user+":wrong"), vRejected
	case 3:
		authz, basicClass = basic("mallory:"+password), vRejected
	case 4:
		authz, basicClass = basic("no-colon-here"), vRejected
	case 5:
		authz, basicClass = "Basic !!!not-base64!!!", vRejected
	case 6:
		authz = "Digest username=alice"
	case 7: // valid token
		jwtClass = vSucceeds
	case 8: // bad signature
		jwtSetup.SigValid, jwtClass = false, vRejected
	case 9: // failed assertion (untrusted issuer)
		jwtSetup.TrustedIssue, jwtClass = false, vRejected
	case 10: // bearer value that is not a JWS at all: not a credential of the jwt kind
		jwtSetup.Parsable = false
		jwtClass = vNoCredentials
	case 11: // key set endpoint unreachable
		jwtSetup.JWKSFails, jwtClass = true, vInfrastructure
	default: // a well-formed, correctly signed JWT whose (supported) algorithm the assertions do not allow:
		// credentials of the jwt kind were found and are rejected — not "no credentials"
		jwtSetup.Alg, jwtClass = "RS256", vRejected
	}

	// ---- the chain ----
	n := 2 + verifapi.NondetChoice("chain.extra", 2)
	var chain compositeSubjectCreator
	var classes []int
	var fallbacks []bool
	var ids []string
	bearer := ""
	for i := 0; i < n; i++ {
		fb := verifapi.NondetBool("allow_fallback_on_error")
		switch verifapi.NondetChoice("chain.type", 4) {
		case 0:
			a, tok, cleanup := authenticators.VerifNewJWT(jwtSetup, fb)
			defer cleanup()
			bearer = tok
			chain = append(chain, a)
			classes, ids = append(classes, jwtClass), append(ids, "jwt-subject")
		case 1:
			chain = append(chain, authenticators.VerifNewBasicAuth(user, password, fb))
			classes, ids = append(classes, basicClass), append(ids, user)
		case 2:
			chain = append(chain, authenticators.VerifNewAnonymous("anon"))
			classes, ids = append(classes, vSucceeds), append(ids, "anon")
			fb = false
		default:
			chain = append(chain, authenticators.VerifNewUnauthorized())
			classes, ids = append(classes, vRejected), append(ids, "")
			fb = false
		}
		fallbacks = append(fallbacks, fb)
	}
	if authz == "" && (jwtClass != vNoCredentials || !jwtSetup.Parsable) {
		authz = "Bearer " + bearer
		if bearer == "" { // no jwt authenticator in the chain: present some bearer value
			authz = "Bearer opaque-token"
		}
	}
	hdrs := map[string]string{}
	if authz != "" {
		hdrs["Authorization"] = authz
	}
	ctx := &vLookupCtx{req: &heimdall.Request{Method: "GET", RequestFunctions: vReqFuncs{headers: hdrs}, URL: &heimdall.URL{}}}

	sub, err := chain.Execute(ctx)

	// ---- documented outcome ----
	wantID, wantErr := "", true
	for i := range chain {
		if classes[i] == vSucceeds {
			wantID, wantErr = ids[i], false
			break
		}
		if classes[i] == vNoCredentials || fallbacks[i] {
			continue
		}
		break
	}
	if strings.HasPrefix(authz, "Basic") {
		verifapi.Cover("basic-credentials")
	}
	if strings.HasPrefix(authz, "Bearer") {
		verifapi.Cover("bearer-credentials")
	}
	if wantErr {
		verifapi.Cover("authentication-fails")
		verifapi.Assert("C04/rejected-credentials-stop-the-chain", err != nil && sub == nil)
		return
	}
	verifapi.Cover("authenticated")
	verifapi.Assert("C04/first-succeeding-authenticator-wins", err == nil && sub != nil && sub.ID == wantID)
}
