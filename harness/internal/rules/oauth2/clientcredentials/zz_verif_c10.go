//go:build verif

package clientcredentials

import (
	"time"

	"github.com/dadrus/heimdall/internal/verifapi"
)

// VerifC10ClientCredentialsTTL: an obtained access token is never cached
// beyond its own expiry; a configured TTL can only shorten; 0 disables.
func VerifC10ClientCredentialsTTL() {
	now := verifapi.Now()
	var ttl *time.Duration
	if verifapi.NondetBool("ttl.set") {
		d := time.Duration(verifapi.NondetInt("ttl"))
		verifapi.Assume(d > -(1<<61) && d < 1<<61)
		ttl = &d
	}
	hasExp := verifapi.NondetBool("expiry.present")
	delta := verifapi.NondetIntRange("expiry.delta", -(1 << 31), 1<<31)
	info := &TokenInfo{AccessToken: "t", TokenType: "Bearer"}
	if hasExp {
		info.Expiry = time.Unix(now.Unix()+delta, 0)
	}
	c := &Config{TTL: ttl}
	got := c.getCacheTTL(info)

	verifapi.Assert("C10/client-credentials/ttl-never-negative", got >= 0)
	if ttl != nil {
		if *ttl <= 0 {
			verifapi.Cover("ttl-zero-or-negative")
			verifapi.Assert("C10/client-credentials/zero-ttl-disables-caching", got == 0)
		} else {
			verifapi.Cover("ttl-positive")
			verifapi.Assert("C10/client-credentials/configured-ttl-only-shortens", got <= *ttl)
		}
	} else {
		verifapi.Cover("ttl-unset")
	}
	if hasExp && got > 0 {
		verifapi.Cover("cached-with-expiry")
		verifapi.Region("KF-C10-client-credentials-ttl-inside-leeway", ttl != nil && delta-5 <= 0)
		verifapi.Assert("C10/client-credentials/not-beyond-token-expiry", int64(got) <= delta*int64(time.Second))
	}
	if !hasExp && ttl == nil {
		verifapi.Assert("C10/client-credentials/no-lifetime-no-caching", got == 0)
	}
}
