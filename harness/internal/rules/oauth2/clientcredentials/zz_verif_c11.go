//go:build verif

package clientcredentials

import (
	"github.com/dadrus/heimdall/internal/verifapi"
)

// VerifC11ClientCredentialsKey: the cache key of the client credentials flow is a function of the
// settings in force, not of the history of the value it is derived from. A rule-level variant is made
// the way the oauth2_client_credentials finalizer and the endpoint auth strategy make it — a copy of the
// catalogue definition's Config by value with the scopes replaced — after the definition may or may not
// have served requests (its key was derived) already: the variant's key equals the definition's key
// exactly if the scopes are equal, and deriving a key twice gives the same key.
func VerifC11ClientCredentialsKey() {
	maxLen := verifapi.Bound("max_scope_len", 2)
	protoScope := verifapi.NondetString("prototype.scope", maxLen)
	ruleScope := verifapi.NondetString("rule.scope", maxLen)

	proto := &Config{TokenURL: "https://idp.example/token", ClientID: "client", ClientSecret: "secret", Scopes: []string{protoScope}}
	usedBefore := verifapi.NondetBool("prototype.served-requests-before")
	first := ""
	if usedBefore {
		first = proto.calculateCacheKey()
		verifapi.Cover("prototype-used-before-the-variant-was-made")
	}
	variant := *proto // oauth2ClientCredentialsFinalizer.WithConfig: cfg := f.cfg
	variant.Scopes = []string{ruleScope}

	kv := variant.calculateCacheKey()
	kp := proto.calculateCacheKey()
	if usedBefore {
		verifapi.Assert("C11/client-credentials/key-is-stable", first == kp)
	}
	verifapi.Assert("C11/client-credentials/key-derivation-is-repeatable", kv == variant.calculateCacheKey())
	if protoScope == ruleScope {
		verifapi.Cover("same-scopes")
		verifapi.Assert("C11/client-credentials/equal-settings-share-a-key", kv == kp)
	} else {
		verifapi.Cover("different-scopes")
		verifapi.Assert("C11/client-credentials/variant-with-other-scopes-never-shares-the-prototypes-key", kv != kp)
	}
}
