//go:build verif

package rules

import (
	"net/http"
	"net/url"

	"github.com/rs/zerolog"

	"github.com/dadrus/heimdall/internal/config"
	"github.com/dadrus/heimdall/internal/handler/requestcontext"
	config2 "github.com/dadrus/heimdall/internal/rules/config"
	"github.com/dadrus/heimdall/internal/rules/rule"
	"github.com/dadrus/heimdall/internal/verifapi"
)

// VerifC03GlobHosts: host expressions of type glob (concrete texts: the glob engine is third-party code
// executed as it is): `*` stays within one DNS label, `**` spans labels; any-of over several expressions.
func VerifC03GlobHosts() {
	hosts := []config2.HostMatcher{{Type: "exact", Value: "admin.example.com"}, {Type: "glob", Value: "*.api.example.com"}}
	if verifapi.NondetBool("rule.has-double-star-host") {
		hosts = append(hosts, config2.HostMatcher{Type: "glob", Value: "**.cdn.example.com"})
	}
	rc := config2.Rule{ID: "rule", Matcher: config2.Matcher{Routes: []config2.Route{{Path: "/x"}}, Hosts: hosts},
		Execute: []config.MechanismConfig{{"authenticator": "a"}}}
	f := &ruleFactory{hf: &vMechFactory{}, mode: config.DecisionMode, logger: zerolog.Nop()}
	rul, err := f.CreateRule("1alpha4", "verif", rc)
	if err != nil {
		verifapi.Assert("C03/valid-rule-accepted", false)
		return
	}
	repo := newRepository(&vFactory{})
	if err := repo.AddRuleSet("verif", []rule.Rule{rul}); err != nil {
		verifapi.Assert("C03/valid-rule-loaded", false)
		return
	}
	cases := []struct {
		host                 string
		single, doubleStarOK bool
	}{
		{"admin.example.com", true, false},
		{"eu.api.example.com", true, false},
		{"a.b.api.example.com", false, false}, // `*` does not cross a label boundary
		{"api.example.com", false, false},
		{"img.cdn.example.com", false, true},
		{"a.b.cdn.example.com", false, true},
		{"other.example.com", false, false},
	}
	c := cases[verifapi.NondetChoice("req.host", len(cases))]
	u, _ := url.ParseRequestURI("/x")
	hr := &http.Request{Method: "GET", URL: u, Host: c.host, Header: http.Header{}, RemoteAddr: "192.0.2.1:4711"}
	ctx := &vLookupCtx{req: requestcontext.New(hr).Request()}
	found, ferr := repo.FindRule(ctx)
	matched := ferr == nil && found != nil
	want := c.single || (c.doubleStarOK && len(hosts) == 3)
	if want {
		verifapi.Cover("should-match")
	} else {
		verifapi.Cover("should-not-match")
	}
	verifapi.Assert("C03/glob-hosts/matches-iff-some-host-expression-holds", matched == want)
}
