//go:build verif

package rules

import (
	"github.com/dadrus/heimdall/internal/config"
	"github.com/dadrus/heimdall/internal/heimdall"
	"github.com/dadrus/heimdall/internal/rules/mechanisms/authenticators"
	"github.com/dadrus/heimdall/internal/rules/mechanisms/authorizers"
	"github.com/dadrus/heimdall/internal/rules/mechanisms/contextualizers"
	"github.com/dadrus/heimdall/internal/rules/mechanisms/errorhandlers"
	"github.com/dadrus/heimdall/internal/rules/mechanisms/finalizers"
	"github.com/dadrus/heimdall/internal/rules/mechanisms/subject"
	"github.com/dadrus/heimdall/internal/x/errorchain"
)

// vMechFactory is a mechanism catalogue of tagged stub mechanisms. Ids starting with
// "unknown" are not in the catalogue; a config containing the key "bad" is a bad override.
// Executed mechanisms append "<kind>:<id>[+cfg]" to Trace.
type vMechFactory struct {
	Trace []string
}

type vMech struct {
	f    *vMechFactory
	kind string
	id   string
	cfg  bool
}

func (m *vMech) tag() string {
	if m.cfg {
		return m.kind + ":" + m.id + "+cfg"
	}
	return m.kind + ":" + m.id
}
func (m *vMech) ID() string { return m.id }
func (m *vMech) run()       { m.f.Trace = append(m.f.Trace, m.tag()) }

type vMAuthn struct{ vMech }

func (m *vMAuthn) Execute(heimdall.Context) (*subject.Subject, error) {
	m.run()
	return &subject.Subject{ID: m.id}, nil
}
func (m *vMAuthn) WithConfig(map[string]any) (authenticators.Authenticator, error) { return m, nil }
func (m *vMAuthn) IsFallbackOnErrorAllowed() bool                                   { return false }

type vMAuthz struct{ vMech }

func (m *vMAuthz) Execute(heimdall.Context, *subject.Subject) error           { m.run(); return nil }
func (m *vMAuthz) WithConfig(map[string]any) (authorizers.Authorizer, error) { return m, nil }
func (m *vMAuthz) ContinueOnError() bool                                      { return false }

type vMCtx struct{ vMech }

func (m *vMCtx) Execute(heimdall.Context, *subject.Subject) error                   { m.run(); return nil }
func (m *vMCtx) WithConfig(map[string]any) (contextualizers.Contextualizer, error) { return m, nil }
func (m *vMCtx) ContinueOnError() bool                                              { return false }

type vMFin struct{ vMech }

func (m *vMFin) Execute(heimdall.Context, *subject.Subject) error         { m.run(); return nil }
func (m *vMFin) WithConfig(map[string]any) (finalizers.Finalizer, error) { return m, nil }
func (m *vMFin) ContinueOnError() bool                                    { return false }

type vMEH struct{ vMech }

func (m *vMEH) Execute(ctx heimdall.Context, cause error) error {
	m.run()
	ctx.SetPipelineError(cause)
	return nil
}
func (m *vMEH) WithConfig(map[string]any) (errorhandlers.ErrorHandler, error) { return m, nil }

func (f *vMechFactory) mk(kind, id string, conf config.MechanismConfig) (vMech, error) {
	if len(id) >= 7 && id[:7] == "unknown" {
		return vMech{}, errorchain.NewWithMessagef(heimdall.ErrConfiguration, "no %s prototype for id='%s' found", kind, id)
	}
	if _, bad := conf["bad"]; bad {
		return vMech{}, errorchain.NewWithMessagef(heimdall.ErrConfiguration, "failed decoding config of %s '%s'", kind, id)
	}
	return vMech{f: f, kind: kind, id: id, cfg: len(conf) != 0}, nil
}

func (f *vMechFactory) CreateAuthenticator(_, id string, conf config.MechanismConfig) (authenticators.Authenticator, error) {
	m, err := f.mk("authn", id, conf)
	if err != nil {
		return nil, err
	}
	return &vMAuthn{m}, nil
}

func (f *vMechFactory) CreateAuthorizer(_, id string, conf config.MechanismConfig) (authorizers.Authorizer, error) {
	m, err := f.mk("authz", id, conf)
	if err != nil {
		return nil, err
	}
	return &vMAuthz{m}, nil
}

func (f *vMechFactory) CreateContextualizer(_, id string, conf config.MechanismConfig) (contextualizers.Contextualizer, error) {
	m, err := f.mk("ctx", id, conf)
	if err != nil {
		return nil, err
	}
	return &vMCtx{m}, nil
}

func (f *vMechFactory) CreateFinalizer(_, id string, conf config.MechanismConfig) (finalizers.Finalizer, error) {
	m, err := f.mk("fin", id, conf)
	if err != nil {
		return nil, err
	}
	return &vMFin{m}, nil
}

func (f *vMechFactory) CreateErrorHandler(_, id string, conf config.MechanismConfig) (errorhandlers.ErrorHandler, error) {
	m, err := f.mk("eh", id, conf)
	if err != nil {
		return nil, err
	}
	return &vMEH{m}, nil
}
