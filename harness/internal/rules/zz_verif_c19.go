//go:build verif

package rules

import (
	"fmt"

	"github.com/rs/zerolog"

	"github.com/dadrus/heimdall/internal/config"
	"github.com/dadrus/heimdall/internal/heimdall"
	config2 "github.com/dadrus/heimdall/internal/rules/config"
	"github.com/dadrus/heimdall/internal/rules/mechanisms/authenticators/extractors"
	"github.com/dadrus/heimdall/internal/verifapi"
)

// vAnyValue draws a YAML-decodable value of an arbitrary dynamic type.
func vAnyValue(name string) any {
	switch verifapi.NondetChoice(name, 8) {
	case 6: // what yaml.v3 produces for a mapping with a non-string key
		return map[any]any{404: "v"}
	case 0:
		return "some-id"
	case 1:
		return 42
	case 2:
		return true
	case 3:
		return nil
	case 4:
		return []any{"a", 1}
	case 5:
		return map[string]any{"k": "v"}
	default:
		return ""
	}
}

// VerifC19RuleFactoryTypeConfusion: a rule set whose pipeline entries carry values of unexpected types
// (they pass YAML decoding: mechanism entries are free-form maps) is rejected with an error; creating
// the rule never panics (rule sets are loaded on provider goroutines without recovery).
func VerifC19RuleFactoryTypeConfusion() {
	f := &ruleFactory{hf: &vMechFactory{}, mode: config.DecisionMode, logger: zerolog.Nop()}
	// the type confusion sits either in an execute step or in an on_error entry
	inErrorHandler := verifapi.NondetBool("confusion.in_on_error")
	step := config.MechanismConfig{}
	key := []string{"authenticator", "authorizer", "contextualizer", "finalizer"}[verifapi.NondetChoice("step.kind", 4)]
	step[key] = "some-id"
	if !inErrorHandler {
		step[key] = vAnyValue("step.id")
		if verifapi.NondetBool("step.has_config") {
			step["config"] = vAnyValue("step.config")
		}
		if verifapi.NondetBool("step.has_if") {
			step["if"] = vAnyValue("step.if")
		}
	}
	execute := []config.MechanismConfig{{"authenticator": "a"}}
	if key == "authenticator" {
		execute = nil
	}
	execute = append(execute, step)
	var onError []config.MechanismConfig
	if inErrorHandler {
		eh := config.MechanismConfig{"error_handler": vAnyValue("eh.id")}
		if verifapi.NondetBool("eh.has_config") {
			eh["config"] = vAnyValue("eh.config")
		}
		if verifapi.NondetBool("eh.has_if") {
			eh["if"] = vAnyValue("eh.if")
		}
		onError = append(onError, eh)
	}
	rc := config2.Rule{ID: "rule", Matcher: config2.Matcher{Routes: []config2.Route{{Path: "/x"}}}, Execute: execute, ErrorHandler: onError}

	crashed := ""
	var err error
	func() {
		defer func() {
			if r := recover(); r != nil {
				crashed = fmt.Sprint(r)
			}
		}()
		_, err = f.CreateRule("1alpha4", "verif", rc)
	}()
	verifapi.Observe("crashed", crashed)
	if err != nil {
		verifapi.Cover("rejected")
	} else if crashed == "" {
		verifapi.Cover("accepted")
	}
	verifapi.Assert("C19/type-confused-rule-never-panics", crashed == "")
}

// VerifC19CompositeExtractor: an authentication data source with any number of strategies (also none)
// answers a request without credentials with an error, not a panic.
func VerifC19CompositeExtractor() {
	var ce extractors.CompositeExtractStrategy
	n := verifapi.NondetChoice("strategies", 3)
	for i := 0; i < n; i++ {
		switch verifapi.NondetChoice("strategy.kind", 4) {
		case 0:
			ce = append(ce, extractors.HeaderValueExtractStrategy{Name: "Authorization", Scheme: "Bearer"})
		case 1:
			ce = append(ce, extractors.CookieValueExtractStrategy{Name: "session"})
		case 2:
			ce = append(ce, extractors.QueryParameterExtractStrategy{Name: "token"})
		default:
			ce = append(ce, extractors.BodyParameterExtractStrategy{Name: "token"})
		}
	}
	hdrs := map[string]string{}
	if verifapi.NondetBool("request.has_authorization") {
		hdrs["Authorization"] = "Bearer abc"
	}
	ctx := &vLookupCtx{req: &heimdall.Request{Method: "GET", RequestFunctions: vReqFuncs{headers: hdrs}, URL: &heimdall.URL{}}}
	crashed := ""
	func() {
		defer func() {
			if r := recover(); r != nil {
				crashed = fmt.Sprint(r)
			}
		}()
		_, _ = ce.GetAuthData(ctx)
	}()
	verifapi.Observe("crashed", crashed)
	verifapi.Cover("extracted")
	verifapi.Assert("C19/composite-extractor-never-panics", crashed == "")
}
