//go:build verif

package rules

import (
	"net/http"
	"errors"
	"net/url"
	"strings"

	"github.com/rs/zerolog"

	"github.com/dadrus/heimdall/internal/config"
	"github.com/dadrus/heimdall/internal/handler/requestcontext"
	"github.com/dadrus/heimdall/internal/heimdall"
	config2 "github.com/dadrus/heimdall/internal/rules/config"
	"github.com/dadrus/heimdall/internal/rules/rule"
	"github.com/dadrus/heimdall/internal/verifapi"
)

// ---------------------------------------------------------------------------
// C08: percent-encoding of unreserved characters changes nothing; encoded slashes
// (either hex case) obey the rule's setting. Real factory, repository, tree, matchers,
// rule execution and upstream URL creation.
// ---------------------------------------------------------------------------

type vOutcome struct {
	rule     string // id of the matched rule ("" = none, "default")
	err      error
	captures map[string]string
	upstream *url.URL
}

func vSlashSetting(i int) config2.EncodedSlashesHandling {
	return []config2.EncodedSlashesHandling{"", config2.EncodedSlashesOff, config2.EncodedSlashesOn, config2.EncodedSlashesOnNoDecode}[i]
}

// vC08Repo builds a repository with a rule-set shape: 0 literal only, 1 single wildcard only, 2 literal +
// wildcard, 3 wildcard with path_params, 4 free wildcard, 5 no regular rule (default rule only).
func vC08Repo(shape int, slashes config2.EncodedSlashesHandling, literal string, ppValue string) rule.Repository {
	mf := &vMechFactory{}
	f := &ruleFactory{hf: mf, mode: config.ProxyMode, logger: zerolog.Nop()}
	f.defaultRule = &ruleImpl{id: "default", srcID: "config", isDefault: true, slashesHandling: config2.EncodedSlashesOff,
		sc: compositeSubjectCreator{&vMAuthn{vMech{f: mf, kind: "authn", id: "d"}}}}
	f.hasDefaultRule = true
	mk := func(id, path string, pps []config2.ParameterMatcher) rule.Rule {
		r, err := f.CreateRule("1alpha4", "verif", config2.Rule{ID: id, EncodedSlashesHandling: slashes,
			Matcher: config2.Matcher{Routes: []config2.Route{{Path: path, PathParams: pps}}},
			Backend: &config2.Backend{Host: "upstream:8080"},
			Execute: []config.MechanismConfig{{"authenticator": "a"}}})
		if err != nil {
			panic("verif: rule not accepted: " + err.Error())
		}
		return r
	}
	var rules []rule.Rule
	switch shape {
	case 0:
		rules = append(rules, mk("literal", "/a/"+literal, nil))
	case 1:
		rules = append(rules, mk("wildcard", "/a/:v", nil))
	case 2:
		rules = append(rules, mk("literal", "/a/"+literal, nil), mk("wildcard", "/a/:v", nil))
	case 3:
		rules = append(rules, mk("wildcard-pp", "/a/:v", []config2.ParameterMatcher{{Name: "v", Type: "exact", Value: ppValue}}))
	case 4:
		rules = append(rules, mk("free", "/a/*v", nil))
	}
	repo := newRepository(f)
	if len(rules) != 0 {
		if err := repo.AddRuleSet("verif", rules); err != nil {
			panic("verif: rule set not accepted: " + err.Error())
		}
	}
	return repo
}

func vC08Run(repo rule.Repository, rawPath string) (vOutcome, bool) {
	u, err := url.ParseRequestURI(rawPath)
	if err != nil {
		return vOutcome{}, false
	}
	// the request view is the one the HTTP entry points build (requestcontext.extractURL)
	hreq := requestcontext.New(&http.Request{Method: "GET", URL: u, Host: "svc", Header: http.Header{}, RemoteAddr: "192.0.2.1:4711"}).Request()
	ctx := &vLookupCtx{req: hreq}
	r, ferr := repo.FindRule(ctx)
	if ferr != nil {
		return vOutcome{err: ferr}, true
	}
	out := vOutcome{rule: r.ID()}
	be, xerr := r.Execute(ctx)
	out.err = xerr
	out.captures = ctx.req.URL.Captures
	if be != nil {
		out.upstream = be.URL()
	}
	return out, true
}

const vHexDigits = "0123456789abcdef0123456789ABCDEF"

// vEncode returns "%XX" for b with nondeterministic hex case per digit.
func vEncode(name string, b byte) string {
	hi := verifapi.NondetByteRange(name+".hi.upper", 0, 1)
	lo := verifapi.NondetByteRange(name+".lo.upper", 0, 1)
	return string([]byte{'%', vHexDigits[int(hi)*16+int(b>>4)], vHexDigits[int(lo)*16+int(b&15)]})
}

// VerifC08Unreserved: a request and its re-encoding (unreserved octets percent-encoded) get the same rule,
// the same captured values and the same accept/deny, for all rule-set shapes and settings.
func VerifC08Unreserved() {
	shape := verifapi.NondetChoice("ruleset", 6)
	slashes := vSlashSetting(verifapi.NondetChoice("allow_encoded_slashes", 4))
	// the decoded segment: two unreserved octets (letters; '-', '.', '_', '~' and digits behave alike in net/url)
	b0 := verifapi.NondetByteRange("seg[0]", 'a', 'z')
	b1 := verifapi.NondetByteRange("seg[1]", 'a', 'z')
	lit := string([]byte{verifapi.NondetByteRange("literal[0]", 'a', 'z'), verifapi.NondetByteRange("literal[1]", 'a', 'z')})
	pp := string([]byte{verifapi.NondetByteRange("pp[0]", 'a', 'z'), verifapi.NondetByteRange("pp[1]", 'a', 'z')})
	repo := vC08Repo(shape, slashes, lit, pp)

	canonical := "/a/" + string([]byte{b0, b1})
	var raw string
	switch verifapi.NondetChoice("encoding_mask", 2+verifapi.Bound("both_encoded", 0)) {
	case 0:
		raw = "/a/" + vEncode("enc0", b0) + string([]byte{b1})
	case 1:
		raw = "/a/" + string([]byte{b0}) + vEncode("enc1", b1)
	default:
		raw = "/a/" + vEncode("enc0", b0) + vEncode("enc1", b1)
	}

	want, ok1 := vC08Run(repo, canonical)
	got, ok2 := vC08Run(repo, raw)
	if !ok1 || !ok2 {
		verifapi.Assert("C08/request-line-parses", false)
		return
	}
	if want.rule == "default" {
		verifapi.Cover("default-rule")
	} else if want.rule != "" {
		verifapi.Cover("regular-rule")
	}
	// known finding: the lookup runs on URL.RawPath, so a literal path expression is not met by a
	// re-encoded spelling of the same path
	literalMissed := want.rule == "literal" && got.rule != "literal"
	verifapi.Region("KF-C08-literal-expression-not-matched-by-encoded-spelling", literalMissed)
	verifapi.Assert("C08/same-rule-for-equivalent-spelling", got.rule == want.rule)
	verifapi.Assert("C08/same-accept-or-deny", (got.err == nil) == (want.err == nil))
	verifapi.Assert("C08/same-captured-values", len(got.captures) == len(want.captures))
	for k, v := range want.captures {
		g, ok := got.captures[k]
		verifapi.Assert("C08/same-captured-values", ok && g == v)
	}
	verifapi.Assert("C08/captured-values-are-decoded", want.rule == "literal" || want.rule == "default" || want.rule == "" ||
		got.captures["v"] == string([]byte{b0, b1}))
}

// VerifC08EncodedSlash: %2F / %2f at any position of the captured part.
func VerifC08EncodedSlash() {
	shape := 1 + verifapi.NondetChoice("ruleset", 5) // shapes with wildcards, and the default rule
	if shape == 2 {
		shape = 1
	}
	setting := verifapi.NondetChoice("allow_encoded_slashes", 4)
	slashes := vSlashSetting(setting)
	x := verifapi.NondetByteRange("x", 'a', 'z')
	y := verifapi.NondetByteRange("y", 'a', 'z')
	slash := []string{"%2F", "%2f"}[verifapi.NondetChoice("hex_case", 2)]
	var seg, decoded string
	realSlash := false
	switch verifapi.NondetChoice("position", 5) {
	case 4: // a real and an encoded slash in what a free wildcard captures (two segments)
		realSlash = true
		seg, decoded = string([]byte{x})+"/"+string([]byte{y})+slash+"z", string([]byte{x})+"/"+string([]byte{y})+"/z"
	case 0:
		seg, decoded = slash+string([]byte{x, y}), "/"+string([]byte{x, y})
	case 1:
		seg, decoded = string([]byte{x})+slash+string([]byte{y}), string([]byte{x})+"/"+string([]byte{y})
	case 2:
		seg, decoded = string([]byte{x, y})+slash, string([]byte{x, y})+"/"
	default: // two encoded slashes (independent hex case) in one captured value
		slash2 := []string{"%2F", "%2f"}[verifapi.NondetChoice("hex_case2", 2)]
		seg, decoded = string([]byte{x})+slash+string([]byte{y})+slash2, string([]byte{x})+"/"+string([]byte{y})+"/"
	}
	pp := string([]byte{verifapi.NondetByteRange("pp[0]", 'a', 'z'), '/', verifapi.NondetByteRange("pp[1]", 'a', 'z')})
	repo := vC08Repo(shape, slashes, "zz", pp)

	// optionally followed by a character net/url does not accept unencoded in an escaped path
	head, tail := "", ""
	switch verifapi.NondetChoice("unencoded-brace", 3) {
	case 1:
		tail = "{"
	case 2:
		head = "{"
	}
	got, ok := vC08Run(repo, "/a/"+head+seg+tail)
	if !ok {
		verifapi.Assert("C08/request-line-parses", false)
		return
	}
	offOrDefault := setting <= 1 || got.rule == "default" || shape == 5
	if head+tail != "" && !offOrDefault && got.rule != "" {
		verifapi.Cover("brace-with-slashes-allowed") // the expected spellings below are for the plain segment only
		return
	}
	switch {
	case got.rule == "":
		verifapi.Cover("no-rule")
		verifapi.Assert("C08/no-rule-is-an-error", got.err != nil)
	case offOrDefault:
		verifapi.Cover("rejected")
		verifapi.Assert("C08/encoded-slash-rejected-when-off", got.err != nil && errors.Is(got.err, heimdall.ErrArgument))
		verifapi.Assert("C08/encoded-slash-never-forwarded-when-off", got.upstream == nil)
	case slashes == config2.EncodedSlashesOnNoDecode:
		verifapi.Cover("no-decode")
		verifapi.Assert("C08/no-decode-accepts", got.err == nil && got.upstream != nil)
		verifapi.Assert("C08/no-decode-keeps-slash-encoded-in-captures",
			strings.EqualFold(got.captures["v"], seg) && (realSlash || !strings.Contains(got.captures["v"], "/")))
		verifapi.Assert("C08/no-decode-keeps-slash-encoded-upstream", strings.EqualFold(got.upstream.EscapedPath(), "/a/"+seg))
	default:
		verifapi.Cover("on")
		verifapi.Assert("C08/on-accepts", got.err == nil && got.upstream != nil)
		verifapi.Assert("C08/on-decodes-slash-in-captures", got.captures["v"] == decoded)
		verifapi.Assert("C08/on-decodes-slash-upstream", got.upstream.EscapedPath() == "/a/"+decoded)
	}
}
