//go:build verif

package rules

import (
	"context"
	"errors"
	"net/url"

	"github.com/dadrus/heimdall/internal/heimdall"
	"github.com/dadrus/heimdall/internal/rules/rule"
	"github.com/dadrus/heimdall/internal/verifapi"
)

// ---------------------------------------------------------------------------
// C06: after any history of add/update/delete, lookups equal those of a
// repository freshly loaded with the current versions.
// ---------------------------------------------------------------------------

type vRuleSpec struct {
	id        string
	hash      string
	paths     []string
	backtrack bool
}

// rules whose additional match conditions are symbolic (all others always match)
var vSymbolicCond = map[string]bool{"r1": true, "r1b": true, "s2": true}

// rule-set versions per source
var vVersionsA = [][]vRuleSpec{
	{{id: "r1", hash: "1", paths: []string{"/a"}}, {id: "r2", hash: "1", paths: []string{"/a/:x"}}},
	{{id: "r1", hash: "2", paths: []string{"/a"}}, {id: "r2", hash: "1", paths: []string{"/a/:x"}}},                                              // r1 changed
	{{id: "r2", hash: "1", paths: []string{"/a/:x"}}, {id: "r1", hash: "1", paths: []string{"/a"}}},                                              // reordered
	{{id: "r1", hash: "1", paths: []string{"/a"}}, {id: "r1b", hash: "1", paths: []string{"/a"}}, {id: "r2", hash: "1", paths: []string{"/a/:x"}}}, // two rules, one expression
	{{id: "r1", hash: "3", paths: []string{"/a"}}, {id: "r1b", hash: "1", paths: []string{"/a"}}},                                                // r1 changed, r2 removed
	{{id: "r1", hash: "1", paths: []string{"/a"}, backtrack: true}, {id: "r3", hash: "1", paths: []string{"/b/**", "/a/b"}}},                      // added rule with two routes
	{{id: "r1", hash: "1", paths: []string{"/a"}}, {id: "rbad", hash: "1", paths: []string{"/a/**/x"}}},                                          // invalid expression: rejected as a whole
	{{id: "r4", hash: "1", paths: []string{"/a/"}}, {id: "r5", hash: "1", paths: []string{"/ab"}}},                                               // disjoint rules
}

var vVersionsB = [][]vRuleSpec{
	{{id: "s1", hash: "1", paths: []string{"/b"}}, {id: "s2", hash: "1", paths: []string{"/:y/b"}, backtrack: true}},
	{{id: "s1", hash: "2", paths: []string{"/a"}}},   // collides with source A's /a: rejected while A owns it
	{{id: "r1", hash: "1", paths: []string{"/b/"}}, {id: "s2", hash: "1", paths: []string{"/b/**"}}, {id: "s3", hash: "1", paths: []string{"/**"}}}, // same rule id as in A
	{{id: "s2", hash: "2", paths: []string{"/a/:z/c", "/b"}}},
}

type vCondMatcher struct {
	conds map[string]bool
	key   string
}

func (m *vCondMatcher) Matches(*heimdall.Request, []string, []string) error {
	v, ok := m.conds[m.key]
	if !ok {
		v = verifapi.NondetBool("cond:" + m.key)
		m.conds[m.key] = v
	}
	if v {
		return nil
	}
	return errors.New("condition does not hold")
}

func vBuildRules(src string, specs []vRuleSpec, conds map[string]bool) []rule.Rule {
	var rs []rule.Rule
	for _, sp := range specs {
		r := &ruleImpl{id: sp.id, srcID: src, hash: []byte(sp.hash), allowsBacktracking: sp.backtrack}
		for _, p := range sp.paths {
			var m RouteMatcher = vAlwaysMatcher{}
			if vSymbolicCond[sp.id] {
				m = &vCondMatcher{conds: conds, key: src + "/" + sp.id + "#" + sp.hash + p}
			}
			r.routes = append(r.routes, &routeImpl{rule: r, path: p, matcher: m})
		}
		rs = append(rs, r)
	}
	return rs
}

type vLookupCtx struct{ req *heimdall.Request }

func (c *vLookupCtx) Request() *heimdall.Request          { return c.req }
func (c *vLookupCtx) AddHeaderForUpstream(string, string) {}
func (c *vLookupCtx) AddCookieForUpstream(string, string) {}
func (c *vLookupCtx) AppContext() context.Context         { return context.Background() }
func (c *vLookupCtx) SetPipelineError(error)              {}
func (c *vLookupCtx) Outputs() map[string]any             { return nil }

func vLookup(repo rule.Repository, path string) (string, map[string]string) {
	ctx := &vLookupCtx{req: &heimdall.Request{Method: "GET", URL: &heimdall.URL{URL: url.URL{Path: path}}}}
	r, err := repo.FindRule(ctx)
	if err != nil {
		return "", nil
	}
	ri := r.(*ruleImpl)
	return ri.srcID + "/" + ri.id + "#" + string(ri.hash), ctx.req.URL.Captures
}

// VerifC06History drives the real repository through a symbolic-choice history and compares, after
// every step, the lookup of EVERY path (symbolic bytes) and EVERY condition vector with a freshly
// loaded repository.
func VerifC06History() {
	steps := verifapi.Bound("further_ops", 2)
	maxLen := verifapi.Bound("max_path_len", 5)
	symbolicPath := verifapi.Bound("symbolic_path", 0) == 1
	conds := map[string]bool{}

	repo := newRepository(&vFactory{})
	cur := map[string]int{} // source -> current version (absent = not loaded)
	loadOrder := []string{}

	apply := func(src string, kind int, newVer int) {
		versions := vVersionsA
		if src == "B" {
			versions = vVersionsB
		}
		_, loaded := cur[src]
		var err error
		switch kind {
		case 0:
			err = repo.AddRuleSet(src, vBuildRules(src, versions[newVer], conds))
			verifapi.Cover("add")
		case 1:
			err = repo.UpdateRuleSet(src, vBuildRules(src, versions[newVer], conds))
			verifapi.Cover("update")
		default:
			newVer = -1
			err = repo.DeleteRuleSet(src)
			verifapi.Cover("delete")
			verifapi.Assert("C06/delete-never-fails", err == nil)
		}
		if err != nil {
			verifapi.Cover("rejected")
			return
		}
		if newVer >= 0 {
			if !loaded {
				loadOrder = append(loadOrder, src)
			}
			cur[src] = newVer
			return
		}
		delete(cur, src)
		for i, s := range loadOrder {
			if s == src {
				loadOrder = append(loadOrder[:i:i], loadOrder[i+1:]...)
				break
			}
		}
	}
	choose := func(src string) int {
		if src == "A" {
			return verifapi.NondetChoice("version", len(vVersionsA))
		}
		return verifapi.NondetChoice("version", len(vVersionsB))
	}

	// phase 1: an arbitrary initial state — each source absent or loaded at any version, in either order
	first, second := "A", "B"
	if verifapi.NondetChoice("initial.order", 2) == 1 {
		first, second = "B", "A"
	}
	for _, src := range []string{first, second} {
		if verifapi.NondetChoice("initial.loaded", 2) == 1 {
			apply(src, 0, choose(src))
		}
	}
	// phase 2: further operations as a provider would issue them
	for step := 0; step < steps; step++ {
		src := "A"
		if verifapi.NondetChoice("src", 2) == 1 {
			src = "B"
		}
		if _, loaded := cur[src]; !loaded {
			apply(src, 0, choose(src))
		} else if verifapi.NondetChoice("op", 2) == 0 {
			apply(src, 1, choose(src))
		} else {
			apply(src, 2, -1)
		}
	}

	// the reference: a fresh instance loaded once with the current versions
	fresh := newRepository(&vFactory{})
	for _, s := range loadOrder {
		versions := vVersionsA
		if s == "B" {
			versions = vVersionsB
		}
		if err := fresh.AddRuleSet(s, vBuildRules(s, versions[cur[s]], conds)); err != nil {
			// the current versions were accepted one by one, so they load together
			verifapi.Assert("C06/current-versions-load-into-empty-instance", false)
			return
		}
	}

	check := func(path string) {
		gotID, gotCaps := vLookup(repo, path)
		wantID, wantCaps := vLookup(fresh, path)
		if wantID != "" {
			verifapi.Cover("lookup-hit")
		} else {
			verifapi.Cover("lookup-miss")
		}
		verifapi.Assert("C06/same-rule-as-fresh-load", gotID == wantID)
		verifapi.Assert("C06/same-captures-as-fresh-load", len(gotCaps) == len(wantCaps))
		for k, v := range wantCaps {
			g, ok := gotCaps[k]
			verifapi.Assert("C06/same-captures-as-fresh-load", ok && g == v)
		}
	}
	if symbolicPath {
		check("/" + verifapi.NondetString("path", maxLen-1))
		return
	}
	// probe paths: every expression of the catalogue instantiated, plus near misses
	for _, p := range []string{"/a", "/a/", "/a/q", "/a/b", "/a/q/c", "/a/q/x", "/ab", "/b", "/b/", "/b/q", "/b/q/r", "/q/b", "/q", "/"} {
		check(p)
	}
}
