//go:build verif

package httpendpoint

import (
	"bytes"
	"context"
	"errors"
	"net"
	"net/http"
	"net/http/httptest"
	"net/url"
	"time"

	"github.com/rs/zerolog"

	"github.com/dadrus/heimdall/internal/rules/endpoint"
	"github.com/dadrus/heimdall/internal/verifapi"
)

// C18 (http_endpoint provider, the real exchange with the endpoint): from a state in which a rule set
// of the endpoint is active, a poll that fails on the network (no route / refused, or a timeout) keeps
// the rule set; an answer other than 200 removes it. The real FetchRuleSet and watchChanges run; the
// network is cut below net/http.Client (engine) or provided by a local test server (native).

var vC18Exchange int // voNot200, voNetworkError, voTimeout

func VerifRoundTrip(req *http.Request) (*http.Response, error) {
	switch vC18Exchange {
	case voNot200:
		return &http.Response{StatusCode: http.StatusNotFound, Header: http.Header{}, Body: http.NoBody}, nil
	case voNetworkError:
		return nil, &url.Error{Op: "Get", URL: req.URL.String(), Err: errors.New("dial tcp 192.0.2.1:443: connect: connection refused")}
	default:
		return nil, &url.Error{Op: "Get", URL: req.URL.String(), Err: vTimeoutErr{}}
	}
}

func VerifC18HTTPEndpointFetchFailures() {
	vC18Exchange = []int{voNot200, voNetworkError, voTimeout}[verifapi.NondetChoice("exchange", 3)]
	oldHash := verifapi.NondetBytes("stored.hash", 2)
	rec := &vRecorder{}
	p := &provider{p: rec, l: zerolog.Nop()}
	e := &ruleSetEndpoint{Endpoint: endpoint.Endpoint{URL: "http://rules.verif/set", Method: http.MethodGet}}
	ctx := context.Background()
	if !verifapi.Symbolic() {
		stall := make(chan struct{})
		srv := httptest.NewServer(http.HandlerFunc(func(rw http.ResponseWriter, _ *http.Request) {
			if vC18Exchange == voTimeout {
				<-stall
				return
			}
			rw.WriteHeader(http.StatusNotFound)
		}))
		defer srv.Close()
		defer close(stall)
		e.URL = srv.URL
		switch vC18Exchange {
		case voNetworkError:
			l, _ := net.Listen("tcp", "127.0.0.1:0") // a port nobody listens on
			e.URL = "http://" + l.Addr().String() + "/set"
			l.Close()
		case voTimeout:
			var cancel context.CancelFunc
			ctx, cancel = context.WithTimeout(ctx, 200*time.Millisecond)
			defer cancel()
		}
	}
	p.states.Store(e.ID(), oldHash)

	_ = p.watchChanges(ctx, e)
	verifapi.Cover("polled")

	v, known := p.states.Load(e.ID())
	if vC18Exchange == voNot200 {
		verifapi.Cover("not-200")
		verifapi.Assert("C18/http_endpoint/fetch/not-200-removes-the-rule-set", len(rec.calls) == 1 && rec.calls[0] == "deleted:http_endpoint:"+e.ID() && !known)
		return
	}
	verifapi.Cover("network-issue")
	verifapi.Assert("C18/http_endpoint/fetch/network-issue-keeps-the-rule-set", len(rec.calls) == 0 && known && bytes.Equal(v.([]byte), oldHash))
}
