//go:build verif

package httpendpoint

import (
	"bytes"
	"context"
	"errors"
	"net/url"

	"github.com/rs/zerolog"

	"github.com/dadrus/heimdall/internal/heimdall"
	config2 "github.com/dadrus/heimdall/internal/rules/config"
	"github.com/dadrus/heimdall/internal/verifapi"
	"github.com/dadrus/heimdall/internal/x/errorchain"
)

// C18 (http_endpoint provider): one poll applied from an arbitrary valid bookkeeping state.

const (
	voOKChanged = iota
	voOKUnchanged
	voEmptyBody    // 200 with an empty body
	voNot200       // e.g. 404
	voUnsupported  // 200 with an unsupported content type
	voInvalid      // 200, not a valid rule set
	voNetworkError // dns error, connection refused
	voTimeout
	voOutcomes
)

type vRecorder struct {
	calls []string
	fail  bool
}

func (r *vRecorder) rec(kind string, rs *config2.RuleSet) error {
	r.calls = append(r.calls, kind+":"+rs.Source)
	if r.fail {
		return errors.New("processor rejected the rule set")
	}
	return nil
}
func (r *vRecorder) OnCreated(rs *config2.RuleSet) error { return r.rec("created", rs) }
func (r *vRecorder) OnUpdated(rs *config2.RuleSet) error { return r.rec("updated", rs) }
func (r *vRecorder) OnDeleted(rs *config2.RuleSet) error { return r.rec("deleted", rs) }

type vTimeoutErr struct{}

func (vTimeoutErr) Error() string   { return "i/o timeout" }
func (vTimeoutErr) Timeout() bool   { return true }
func (vTimeoutErr) Temporary() bool { return true }

// vFetcher answers like ruleSetEndpoint.FetchRuleSet does for the respective exchange with the endpoint
// (same error kinds and causes).
type vFetcher struct {
	outcome int
	hash    []byte
}

func (f *vFetcher) ID() string { return "https://rules.example/set" }
func (f *vFetcher) FetchRuleSet(context.Context) (*config2.RuleSet, error) {
	switch f.outcome {
	case voOKChanged, voOKUnchanged:
		rs := &config2.RuleSet{Version: "1alpha4", Rules: []config2.Rule{{ID: "r"}}}
		rs.Hash, rs.Source = f.hash, "http_endpoint:"+f.ID()
		return rs, nil
	case voEmptyBody:
		return nil, errorchain.NewWithMessage(heimdall.ErrInternal, "failed to parse received rule set").CausedBy(config2.ErrEmptyRuleSet)
	case voNot200:
		return nil, errorchain.NewWithMessagef(heimdall.ErrCommunication, "unexpected response code: %v", 404)
	case voUnsupported:
		return nil, errorchain.NewWithMessage(heimdall.ErrInternal, "failed to parse received rule set").
			CausedBy(errorchain.NewWithMessagef(heimdall.ErrInternal, "unsupported '%s' content type", "text/html"))
	case voInvalid:
		return nil, errorchain.NewWithMessage(heimdall.ErrInternal, "failed to parse received rule set").CausedBy(errors.New("yaml: line 1: did not find expected key"))
	case voNetworkError:
		return nil, errorchain.NewWithMessage(heimdall.ErrCommunication, "request to rule set endpoint failed").
			CausedBy(&url.Error{Op: "Get", URL: f.ID(), Err: errors.New("dial tcp: lookup rules.example: no such host")})
	default:
		return nil, errorchain.NewWithMessage(heimdall.ErrCommunicationTimeout, "request to rule set endpoint timed out").
			CausedBy(&url.Error{Op: "Get", URL: f.ID(), Err: vTimeoutErr{}})
	}
}

func VerifC18HTTPEndpointStep() {
	rec := &vRecorder{fail: verifapi.NondetBool("processor.fails")}
	p := &provider{p: rec, l: zerolog.Nop()}

	known := verifapi.NondetBool("known")
	oldHash := verifapi.NondetBytes("stored.hash", 2)
	outcome := verifapi.NondetChoice("outcome", voOutcomes)
	newHash := verifapi.NondetBytes("new.hash", 2)
	if outcome == voOKUnchanged {
		if !known {
			return
		}
		newHash = oldHash
	} else {
		verifapi.Assume(!bytes.Equal(newHash, oldHash))
	}
	f := &vFetcher{outcome: outcome, hash: newHash}
	if known {
		p.states.Store(f.ID(), oldHash)
	}

	err := p.watchChanges(context.Background(), f)

	// ---- reference (providers.adoc, http_endpoint) ----
	//   network issues (dns errors, timeouts and alike): previously received rule sets are preserved
	//   other answers (not 200, empty body): the rules are removed if previously loaded
	//   unsupported format: "ignored" in one sentence, "removed" in the next: both accepted
	//   a syntactically invalid new version leaves the previous one active (property statement)
	want, wantKnown, wantHash := "", known, oldHash
	either := false
	switch {
	case outcome == voOKChanged && !known:
		want, wantKnown, wantHash = "created", true, newHash
	case outcome == voOKChanged && known:
		want, wantHash = "updated", newHash
	case (outcome == voEmptyBody || outcome == voNot200) && known:
		want, wantKnown = "deleted", false
	case outcome == voUnsupported && known:
		either = true
	}
	if rec.fail && want != "" {
		wantKnown, wantHash = known, oldHash
		verifapi.Cover("processor-failure")
	}
	_ = err
	switch {
	case either:
		verifapi.Cover("documentation-ambiguous")
		verifapi.Assert("C18/http_endpoint/unsupported-format-ignored-or-removed",
			len(rec.calls) == 0 || (len(rec.calls) == 1 && rec.calls[0] == "deleted:http_endpoint:"+f.ID()))
		return
	case want == "":
		verifapi.Cover("no-call-expected")
		if outcome == voNetworkError || outcome == voTimeout {
			verifapi.Cover("network-issue")
		}
		verifapi.Assert("C18/http_endpoint/no-call-when-nothing-changed-or-source-unreachable", len(rec.calls) == 0)
	default:
		verifapi.Cover("call-expected")
		verifapi.Assert("C18/http_endpoint/exactly-the-expected-call", len(rec.calls) == 1 && rec.calls[0] == want+":http_endpoint:"+f.ID())
	}
	v, isKnown := p.states.Load(f.ID())
	verifapi.Assert("C18/http_endpoint/bookkeeping-known", isKnown == wantKnown)
	if isKnown && wantKnown {
		verifapi.Assert("C18/http_endpoint/bookkeeping-hash", bytes.Equal(v.([]byte), wantHash))
	}
}
