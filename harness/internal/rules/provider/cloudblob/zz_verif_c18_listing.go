//go:build verif

package cloudblob

import (
	"context"
	"errors"
	"fmt"
	"io"
	"net/url"

	"gocloud.dev/blob"
	"gocloud.dev/blob/memblob"

	"github.com/dadrus/heimdall/internal/heimdall"
	rule_config "github.com/dadrus/heimdall/internal/rules/config"
	"github.com/dadrus/heimdall/internal/verifapi"
	"github.com/dadrus/heimdall/internal/x/errorchain"
)

// C18 (cloud_blob provider, reading the bucket): the real listing loop reports exactly the non-empty
// rule sets of the bucket, in key order, whichever blobs are empty; an undecodable blob fails the
// whole poll (nothing is reported, so nothing is unloaded or half applied).

const (
	vBlobAbsent = iota
	vBlobValid
	vBlobEmpty
	vBlobBroken
)

var (
	vC18Keys  = []string{"rules-a", "rules-b", "rules-c"}
	vC18Kinds [3]int
	vC18Pos   int
)

// engine-side stand-ins of the gocloud listing API and of the blob download (natively a memblob bucket)
func VerifBucketList(*blob.Bucket, *blob.ListOptions) *blob.ListIterator {
	vC18Pos = 0
	return &blob.ListIterator{}
}

func VerifBucketListNext(*blob.ListIterator, context.Context) (*blob.ListObject, error) {
	for vC18Pos < len(vC18Keys) {
		i := vC18Pos
		vC18Pos++
		if vC18Kinds[i] != vBlobAbsent {
			return &blob.ListObject{Key: vC18Keys[i]}, nil
		}
	}
	return nil, io.EOF
}

func verifStub_ruleSetEndpoint_readRuleSet(e *ruleSetEndpoint, _ context.Context, _ *blob.Bucket, key string) (*rule_config.RuleSet, error) {
	for i, k := range vC18Keys {
		if k != key {
			continue
		}
		switch vC18Kinds[i] {
		case vBlobValid:
			return &rule_config.RuleSet{Version: "1", Rules: []rule_config.Rule{{ID: "r"}},
				MetaData: rule_config.MetaData{Source: fmt.Sprintf("%s@%s", key, e.ID())}}, nil
		case vBlobEmpty:
			return nil, errorchain.NewWithMessage(heimdall.ErrInternal, "failed to decode received rule set").CausedBy(rule_config.ErrEmptyRuleSet)
		case vBlobBroken:
			return nil, errorchain.NewWithMessage(heimdall.ErrInternal, "failed to decode received rule set").CausedBy(errors.New("yaml: broken"))
		}
	}
	return nil, errors.New("verif: blob not listed")
}

const vC18RuleSet = `
version: "1"
name: test
rules:
- id: r
  match:
    routes:
      - path: /foo
  execute:
  - authenticator: a
`

func VerifC18CloudBlobListing() {
	for i := range vC18Kinds {
		vC18Kinds[i] = verifapi.NondetChoice("blob.kind", 4)
	}
	u, _ := url.Parse("mem://bucket")
	e := &ruleSetEndpoint{URL: u}
	var bucket *blob.Bucket
	if !verifapi.Symbolic() {
		bucket = memblob.OpenBucket(nil)
		defer bucket.Close()
		for i, k := range vC18Keys {
			var err error
			switch vC18Kinds[i] {
			case vBlobValid:
				err = bucket.WriteAll(context.Background(), k, []byte(vC18RuleSet), &blob.WriterOptions{ContentType: "application/yaml"})
			case vBlobEmpty:
				err = bucket.WriteAll(context.Background(), k, nil, nil)
			case vBlobBroken:
				err = bucket.WriteAll(context.Background(), k, []byte("rules: [}"), &blob.WriterOptions{ContentType: "application/yaml"})
			}
			if err != nil {
				panic(err)
			}
		}
	}
	sets, err := e.readAllBlobs(context.Background(), bucket)
	verifapi.Cover("bucket-listed")

	var want []string
	broken := false
	for i, k := range vC18Keys {
		switch vC18Kinds[i] {
		case vBlobValid:
			want = append(want, fmt.Sprintf("%s@%s", k, e.ID()))
		case vBlobBroken:
			broken = true
		}
	}
	if broken {
		verifapi.Cover("undecodable-blob")
		verifapi.Assert("C18/cloud_blob/undecodable-blob-fails-the-poll", err != nil && len(sets) == 0)
		return
	}
	verifapi.Assert("C18/cloud_blob/listing-succeeds", err == nil)
	ok := len(sets) == len(want)
	for i := 0; ok && i < len(want); i++ {
		ok = sets[i].Source == want[i]
	}
	verifapi.Assert("C18/cloud_blob/every-non-empty-blob-is-reported-in-key-order", ok)
}
