//go:build verif

package cloudblob

import (
	"bytes"
	"context"
	"errors"

	"github.com/rs/zerolog"

	"github.com/dadrus/heimdall/internal/heimdall"
	rule_config "github.com/dadrus/heimdall/internal/rules/config"
	"github.com/dadrus/heimdall/internal/verifapi"
	"github.com/dadrus/heimdall/internal/x/errorchain"
)

// C18 (cloud_blob provider): one poll of a bucket with up to two blobs from an arbitrary valid state.

type vRecorder struct {
	calls []string
	fail  bool
}

func (r *vRecorder) rec(kind string, rs *rule_config.RuleSet) error {
	r.calls = append(r.calls, kind+":"+rs.Source)
	if r.fail {
		return errors.New("processor rejected the rule set")
	}
	return nil
}
func (r *vRecorder) OnCreated(rs *rule_config.RuleSet) error { return r.rec("created", rs) }
func (r *vRecorder) OnUpdated(rs *rule_config.RuleSet) error { return r.rec("updated", rs) }
func (r *vRecorder) OnDeleted(rs *rule_config.RuleSet) error { return r.rec("deleted", rs) }

type vFetcher struct {
	sets []*rule_config.RuleSet
	err  error
}

func (f *vFetcher) ID() string { return "s3://bucket/" }
func (f *vFetcher) FetchRuleSets(context.Context) ([]*rule_config.RuleSet, error) {
	return f.sets, f.err
}

func VerifC18CloudBlobStep() {
	rec := &vRecorder{}
	p := &provider{p: rec, l: zerolog.Nop()}
	f := &vFetcher{}
	ids := []string{"a.yaml@s3://bucket/", "b.yaml@s3://bucket/"}

	// ---- arbitrary valid pre-state and the bucket's current content ----
	state := p.getBucketState(f.ID())
	var known, present [2]bool
	var oldHash, newHash [2][]byte
	for i, id := range ids {
		known[i] = verifapi.NondetBool("known")
		oldHash[i] = verifapi.NondetBytes("stored.hash", 2)
		if known[i] {
			state["blob:"+id] = oldHash[i] // (keys are what the provider stores: the rule set's source)
			delete(state, "blob:"+id)
			state[id] = oldHash[i]
		}
		present[i] = verifapi.NondetBool("present")
		if present[i] {
			if known[i] && verifapi.NondetBool("unchanged") {
				newHash[i] = oldHash[i]
			} else {
				newHash[i] = verifapi.NondetBytes("new.hash", 2)
				verifapi.Assume(!bytes.Equal(newHash[i], oldHash[i]))
			}
			rs := &rule_config.RuleSet{Version: "1alpha4", Rules: []rule_config.Rule{{ID: "r"}}}
			rs.Hash, rs.Source = newHash[i], id
			f.sets = append(f.sets, rs)
		}
	}
	failure := verifapi.NondetChoice("bucket.failure", 4)
	switch failure {
	case 1: // network issue
		f.sets, f.err = nil, errorchain.NewWithMessage(heimdall.ErrCommunication, "failed iterate blobs").CausedBy(errors.New("dial tcp: no such host"))
	case 2:
		f.sets, f.err = nil, errorchain.NewWithMessage(heimdall.ErrCommunicationTimeout, "failed iterate blobs").CausedBy(context.DeadlineExceeded)
	case 3: // a blob could not be decoded
		f.sets, f.err = nil, errorchain.NewWithMessage(heimdall.ErrInternal, "failed to decode received rule set").CausedBy(errors.New("yaml: broken"))
	}

	_ = p.watchChanges(context.Background(), f)

	// ---- reference ----
	var want []string
	if failure == 0 {
		for i, id := range ids {
			if known[i] && !present[i] {
				want = append(want, "deleted:blob:"+id)
			}
		}
		for i, id := range ids {
			switch {
			case present[i] && !known[i]:
				want = append(want, "created:"+id)
			case present[i] && known[i] && !bytes.Equal(newHash[i], oldHash[i]):
				want = append(want, "updated:"+id)
			}
		}
		verifapi.Cover("bucket-read")
	} else {
		verifapi.Cover("bucket-failure")
	}
	ok := len(rec.calls) == len(want)
	for i := 0; ok && i < len(want); i++ {
		ok = rec.calls[i] == want[i]
	}
	verifapi.Assert("C18/cloud_blob/exactly-the-expected-calls", ok)
	// post-state: exactly the blobs whose version is active, with the hash of that version
	for i, id := range ids {
		wantKnown, wantHash := known[i], oldHash[i]
		if failure == 0 {
			wantKnown = present[i]
			if present[i] {
				wantHash = newHash[i]
			}
		}
		h, isKnown := state[id]
		verifapi.Assert("C18/cloud_blob/bookkeeping-known", isKnown == wantKnown)
		if isKnown && wantKnown {
			verifapi.Assert("C18/cloud_blob/bookkeeping-hash", bytes.Equal(h, wantHash))
		}
	}
}
