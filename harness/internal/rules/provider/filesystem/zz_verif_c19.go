//go:build verif

package filesystem

import (
	"fmt"
	"io/fs"
	"os"
	"path/filepath"
	"sync/atomic"
	"time"

	"github.com/rs/zerolog"

	config2 "github.com/dadrus/heimdall/internal/rules/config"
	"github.com/dadrus/heimdall/internal/verifapi"
)

// VerifC19RuleFileVanishes: a rule set file that disappears (is renamed or removed by whoever rotates it)
// right after it was opened and read — between the watcher's event and the end of loading — yields an
// error or a removed rule set, never a panic on the watcher's goroutine. The real loadRuleSet runs; in
// the engine the file system calls are stand-ins (the file opens, the later Stat may fail); natively the
// file is removed and re-created by a second goroutine while it is loaded again and again.

var verifStubOff_Provider_loadRuleSet bool

var vC19StatFails bool

func VerifOSOpen(string) (*os.File, error) { return new(os.File), nil }

func VerifOSStat(name string) (fs.FileInfo, error) {
	if vC19StatFails {
		return nil, &fs.PathError{Op: "stat", Path: name, Err: fs.ErrNotExist}
	}
	return vFileInfo{}, nil
}

// the information about an opened file is available whatever happens to its name
func VerifFileStat(*os.File) (fs.FileInfo, error) { return vFileInfo{}, nil }

type vFileInfo struct{}

func (vFileInfo) Name() string       { return "rules.yaml" }
func (vFileInfo) Size() int64        { return 1 }
func (vFileInfo) Mode() fs.FileMode  { return 0o600 }
func (vFileInfo) ModTime() time.Time { return time.Time{} }
func (vFileInfo) IsDir() bool        { return false }
func (vFileInfo) Sys() any           { return nil }

func VerifC19RuleFileVanishes() {
	vC19StatFails = verifapi.NondetBool("file.vanishes-after-it-was-read")
	p := &Provider{l: zerolog.Nop()}
	crashed := ""
	load := func(name string) {
		defer func() {
			if r := recover(); r != nil {
				crashed = fmt.Sprint(r)
			}
		}()
		_, _ = p.loadRuleSet(name)
	}
	if verifapi.Symbolic() {
		verifStubOff_Provider_loadRuleSet = true
		config2.VerifUseParseRulesStub(true)
		load("/rules/rules.yaml")
		config2.VerifUseParseRulesStub(false)
		verifStubOff_Provider_loadRuleSet = false
	} else if vC19StatFails {
		dir, err := os.MkdirTemp("", "verif-c19-")
		if err != nil {
			panic(err)
		}
		defer os.RemoveAll(dir)
		name, tmp := filepath.Join(dir, "rules.yaml"), filepath.Join(dir, "rules.tmp")
		var stop atomic.Bool
		done := make(chan struct{})
		go func() { // the rotation: publish a complete file by rename, remove it again
			defer close(done)
			for !stop.Load() {
				os.WriteFile(tmp, []byte(vC18ValidA), 0o600)
				os.Rename(tmp, name)
				os.Remove(name)
			}
		}()
		deadline := time.Now().Add(20 * time.Second)
		for crashed == "" && time.Now().Before(deadline) {
			load(name)
		}
		stop.Store(true)
		<-done
	} else {
		dir, err := os.MkdirTemp("", "verif-c19-")
		if err != nil {
			panic(err)
		}
		defer os.RemoveAll(dir)
		name := filepath.Join(dir, "rules.yaml")
		os.WriteFile(name, []byte(vC18ValidA), 0o600)
		load(name)
	}
	verifapi.Cover("loaded")
	verifapi.Observe("crashed", crashed)
	verifapi.Assert("C19/file_system/vanishing-rule-file-never-panics", crashed == "")
}
