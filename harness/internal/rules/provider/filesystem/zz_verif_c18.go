//go:build verif

package filesystem

import (
	"bytes"
	"crypto/sha256"
	"errors"
	"os"
	"path/filepath"

	"github.com/fsnotify/fsnotify"
	"github.com/rs/zerolog"

	"github.com/dadrus/heimdall/internal/heimdall"
	config2 "github.com/dadrus/heimdall/internal/rules/config"
	"github.com/dadrus/heimdall/internal/verifapi"
	"github.com/dadrus/heimdall/internal/x/errorchain"
)

// ---------------------------------------------------------------------------
// C18 (file_system provider): ONE event applied from an ARBITRARY valid bookkeeping state
// (inductive step). State invariant: a source is known iff the processor has a version of it
// active, and the stored hash is the hash of that version. Reference: rules/providers.adoc.
// ---------------------------------------------------------------------------

// source outcomes
const (
	voOKChanged = iota // readable, valid, content differs from the active version (or none active)
	voOKUnchanged      // readable, valid, same content as the active version
	voEmpty            // exists but is empty
	voGone             // does not exist (any more)
	voInvalid          // exists but is not a valid rule set
	voOutcomes
)

type vRecorder struct {
	calls []string
	fail  bool
}

func (r *vRecorder) rec(kind string, rs *config2.RuleSet) error {
	r.calls = append(r.calls, kind+":"+rs.Source)
	if r.fail {
		return errors.New("processor rejected the rule set")
	}
	return nil
}
func (r *vRecorder) OnCreated(rs *config2.RuleSet) error { return r.rec("created", rs) }
func (r *vRecorder) OnUpdated(rs *config2.RuleSet) error { return r.rec("updated", rs) }
func (r *vRecorder) OnDeleted(rs *config2.RuleSet) error { return r.rec("deleted", rs) }

// engine-side replacement of the file access (natively real files are used)
var (
	vC18Outcome int
	vC18NewHash []byte
)

func verifStub_Provider_loadRuleSet(_ *Provider, fileName string) (*config2.RuleSet, error) {
	switch vC18Outcome {
	case voOKChanged, voOKUnchanged:
		rs := &config2.RuleSet{Version: "1alpha4", Rules: []config2.Rule{{ID: "r"}}}
		rs.Hash, rs.Source = vC18NewHash, "file_system:"+fileName
		return rs, nil
	case voEmpty:
		return nil, errorchain.NewWithMessagef(heimdall.ErrInternal, "failed to parse rule set %s", fileName).CausedBy(config2.ErrEmptyRuleSet)
	case voGone:
		return nil, errorchain.NewWithMessagef(heimdall.ErrInternal, "failed opening file %s", fileName).CausedBy(os.ErrNotExist)
	default:
		return nil, errorchain.NewWithMessagef(heimdall.ErrInternal, "failed to parse rule set %s", fileName).CausedBy(errors.New("yaml: did not find expected key"))
	}
}

const vC18ValidA = "version: \"1alpha4\"\nrules:\n- id: r\n  match:\n    routes:\n    - path: /a\n  execute:\n  - authenticator: a\n"
const vC18ValidB = "version: \"1alpha4\"\nrules:\n- id: r\n  match:\n    routes:\n    - path: /b\n  execute:\n  - authenticator: a\n"

func VerifC18FilesystemStep() {
	rec := &vRecorder{fail: verifapi.NondetBool("processor.fails")}
	p := &Provider{p: rec, l: zerolog.Nop()}
	dir := "/rules"
	if !verifapi.Symbolic() {
		d, err := os.MkdirTemp("", "verif-c18-")
		if err != nil {
			panic(err)
		}
		defer os.RemoveAll(d)
		dir = d
	}
	file := filepath.Join(dir, "set.yaml")

	// ---- arbitrary valid pre-state ----
	known := verifapi.NondetBool("known")
	oldHash := verifapi.NondetBytes("stored.hash", 2)
	outcome := verifapi.NondetChoice("outcome", voOutcomes)
	newHash := verifapi.NondetBytes("new.hash", 2)
	if !verifapi.Symbolic() {
		// natively hashes are real digests of real contents
		a, b := sha256.Sum256([]byte(vC18ValidA)), sha256.Sum256([]byte(vC18ValidB))
		oldHash, newHash = a[:], b[:]
		if outcome == voOKUnchanged {
			newHash = oldHash
		}
		switch outcome {
		case voOKChanged:
			os.WriteFile(file, []byte(vC18ValidB), 0o600)
		case voOKUnchanged:
			os.WriteFile(file, []byte(vC18ValidA), 0o600)
		case voEmpty:
			os.WriteFile(file, nil, 0o600)
		case voInvalid:
			os.WriteFile(file, []byte("version: [unterminated\n  rules: {"), 0o600)
		}
	} else {
		if outcome == voOKUnchanged {
			newHash = oldHash
		} else {
			verifapi.Assume(!bytes.Equal(newHash, oldHash))
		}
		vC18Outcome, vC18NewHash = outcome, newHash
	}
	if outcome == voOKUnchanged && !known {
		return // "unchanged" only makes sense relative to an active version
	}
	if known {
		p.states.Store(file, oldHash)
	}

	// ---- one event ----
	ops := []fsnotify.Op{fsnotify.Create, fsnotify.Write, fsnotify.Chmod, fsnotify.Remove, fsnotify.Write | fsnotify.Chmod, fsnotify.Rename}
	op := ops[verifapi.NondetChoice("event", len(ops))]
	if op.Has(fsnotify.Remove) || op.Has(fsnotify.Rename) {
		// a remove / rename notification is delivered for the (old) name of a file that is gone from it
		if outcome != voGone {
			return
		}
	}
	err := p.ruleSetsChanged(fsnotify.Event{Name: file, Op: op})

	// ---- reference transition ----
	want, wantKnown, wantHash := "", known, oldHash
	switch {
	case outcome == voOKChanged && !known:
		want, wantKnown, wantHash = "created", true, newHash
	case outcome == voOKChanged && known:
		want, wantHash = "updated", newHash
	case (outcome == voEmpty || outcome == voGone) && known:
		want, wantKnown = "deleted", false
	}
	if rec.fail && want != "" {
		wantKnown, wantHash = known, oldHash // a change the processor did not accept is not recorded as applied
		verifapi.Cover("processor-failure")
	}
	if want == "" {
		verifapi.Cover("no-call-expected")
		verifapi.Assert("C18/filesystem/no-call-when-nothing-changed", len(rec.calls) == 0)
	} else {
		verifapi.Cover("call-expected")
		verifapi.Assert("C18/filesystem/exactly-the-expected-call", len(rec.calls) == 1 && rec.calls[0] == want+":file_system:"+file)
		verifapi.Assert("C18/filesystem/processor-error-reported", (err != nil) == rec.fail)
	}
	if outcome == voInvalid {
		verifapi.Cover("invalid-new-version")
		verifapi.Assert("C18/filesystem/invalid-version-keeps-old-one-active", len(rec.calls) == 0)
	}
	v, isKnown := p.states.Load(file)
	verifapi.Assert("C18/filesystem/bookkeeping-known", isKnown == wantKnown)
	if isKnown && wantKnown {
		verifapi.Assert("C18/filesystem/bookkeeping-hash", bytes.Equal(v.([]byte), wantHash))
	}
}
