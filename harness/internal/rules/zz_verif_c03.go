//go:build verif

package rules

import (
	"net/http"
	"net/url"

	"github.com/rs/zerolog"

	"github.com/dadrus/heimdall/internal/config"
	"github.com/dadrus/heimdall/internal/handler/requestcontext"
	config2 "github.com/dadrus/heimdall/internal/rules/config"
	"github.com/dadrus/heimdall/internal/rules/rule"
	"github.com/dadrus/heimdall/internal/verifapi"
)

// ---------------------------------------------------------------------------
// C03: match conditions (scheme, methods with ALL / !, any-of hosts, path_params on
// single and free named wildcards) and captured values, through the real factory,
// repository, tree and matchers. Reference from regular_rule.adoc.
// ---------------------------------------------------------------------------

var vAllMethods = []string{"GET", "HEAD", "POST", "PUT", "PATCH", "DELETE", "CONNECT", "OPTIONS", "TRACE"}

var vMethodLists = [][]string{
	nil,
	{"GET"},
	{"GET", "POST"},
	{"ALL"},
	{"ALL", "!GET"},
	{"ALL", "!GET", "!POST"},
	{"!TRACE", "ALL"},
	{"POST", "ALL", "!POST"},
}

// vMethodAllowed is the documented meaning of a methods list.
func vMethodAllowed(list []string, method string) bool {
	if len(list) == 0 {
		return true
	}
	all, listed, excluded := false, false, false
	for _, m := range list {
		switch {
		case m == "ALL":
			all = true
		case len(m) > 0 && m[0] == '!':
			if m[1:] == method {
				excluded = true
			}
		case m == method:
			listed = true
		}
	}
	known := false
	for _, m := range vAllMethods {
		if m == method {
			known = true
		}
	}
	return (listed || (all && known)) && !excluded
}

// vSegment is one path segment as sent on the wire together with its decoded value.
// Shapes: 0 = two unreserved bytes; 1 = one percent-encoded octet (either hex case); 2 = unreserved byte + encoded octet.
func vSegment(name string, shape int) (raw, decoded string) {
	alpha := func(n string) byte {
		return verifapi.NondetByteRange(n, 'a', 'z')
	}
	// percent-encoded octets come from a catalogue (both hex cases, the percent sign itself,
	// reserved and unreserved characters): their parsing is net/url's, not heimdall's
	encoded := func(n string) (string, byte) {
		cat := []struct {
			raw string
			dec byte
		}{{"%41", 'A'}, {"%7e", '~'}, {"%7E", '~'}, {"%5b", '['}, {"%5B", '['}, {"%25", '%'}, {"%2e", '.'}, {"%3A", ':'}, {"%20", ' '}}
		c := cat[verifapi.NondetChoice(n, len(cat))]
		return c.raw, c.dec
	}
	switch shape {
	case 0:
		a, b := alpha(name+".a"), alpha(name+".b")
		return string([]byte{a, b}), string([]byte{a, b})
	case 1:
		e, d := encoded(name + ".e")
		return e, string([]byte{d})
	case 3: // an encoded octet followed by two letters (e.g. %25ab: the decoded value %ab looks encoded again)
		e, d := encoded(name + ".e")
		a, b := alpha(name+".a"), alpha(name+".b")
		return e + string([]byte{a, b}), string([]byte{d, a, b})
	default:
		a := alpha(name + ".a")
		e, d := encoded(name + ".e")
		return string([]byte{a}) + e, string([]byte{a, d})
	}
}

// VerifC03Conditions: scheme / method / host conditions (plain path).
func VerifC03Conditions() { verifC03(true) }

// VerifC03PathParams: path_params conditions and captured values under percent-encoding.
func VerifC03PathParams() { verifC03(false) }

func verifC03(conditions bool) {
	// ---- rule definition ----
	scheme, methods, nHosts := "", []string(nil), 0
	hostAspect := false
	if conditions {
		// the three conditions are independent conjuncts: scheme+method and hosts are explored separately
		if hostAspect = verifapi.NondetChoice("aspect", 2) == 1; hostAspect {
			nHosts = verifapi.NondetChoice("rule.n_hosts", 3)
		} else {
			scheme = []string{"", "http", "https"}[verifapi.NondetChoice("rule.scheme", 3)]
			methods = vMethodLists[verifapi.NondetChoice("rule.methods", len(vMethodLists))]
		}
	}
	lower := func(s string) string {
		for i := 0; i < len(s); i++ {
			verifapi.Assume(s[i] >= 'a')
			verifapi.Assume(s[i] <= 'z')
		}
		return s
	}
	var hosts []config2.HostMatcher
	var hostValues []string
	for i := 0; i < nHosts; i++ {
		hv := lower(verifapi.NondetStringN("rule.host", 2))
		hostValues = append(hostValues, hv)
		hosts = append(hosts, config2.HostMatcher{Type: "exact", Value: hv})
	}
	// path_params: none, on the single wildcard, on the free wildcard, on both
	ppMode := 0
	if !conditions {
		ppMode = verifapi.NondetChoice("rule.path_params", 4)
	}
	wantName := verifapi.NondetStringN("rule.pp.name", 2)
	wantRest := verifapi.NondetStringN("rule.pp.rest", 2)
	var pps []config2.ParameterMatcher
	if ppMode == 1 || ppMode == 3 {
		pps = append(pps, config2.ParameterMatcher{Name: "name", Type: "exact", Value: wantName})
	}
	if ppMode == 2 || ppMode == 3 {
		pps = append(pps, config2.ParameterMatcher{Name: "rest", Type: "exact", Value: wantRest})
	}
	slashes := config2.EncodedSlashesHandling("")
	if !conditions {
		slashes = []config2.EncodedSlashesHandling{"", config2.EncodedSlashesOn, config2.EncodedSlashesOnNoDecode}[verifapi.NondetChoice("rule.slashes", 3)]
	}

	rc := config2.Rule{
		ID:                     "rule",
		EncodedSlashesHandling: slashes,
		Matcher: config2.Matcher{
			Routes:  []config2.Route{{Path: "/files/:name/:*/*rest", PathParams: pps}},
			Scheme:  scheme,
			Methods: append([]string(nil), methods...),
			Hosts:   hosts,
		},
		Execute: []config.MechanismConfig{{"authenticator": "a"}},
	}
	mf := &vMechFactory{}
	f := &ruleFactory{hf: mf, mode: config.DecisionMode, logger: zerolog.Nop()}
	rul, err := f.CreateRule("1alpha4", "verif", rc)
	if err != nil {
		verifapi.Assert("C03/valid-rule-accepted", false)
		return
	}
	repo := newRepository(&vFactory{})
	if err := repo.AddRuleSet("verif", []rule.Rule{rul}); err != nil {
		verifapi.Assert("C03/valid-rule-loaded", false)
		return
	}

	// ---- request ----
	reqMethod, reqScheme, reqHost := "GET", "http", "hh"
	shape1, shape3 := 0, 0
	if conditions && hostAspect {
		reqHost = lower(verifapi.NondetStringN("req.host", 2))
	} else if conditions {
		reqMethod = append(append([]string(nil), vAllMethods...), "PROPFIND")[verifapi.NondetChoice("req.method", len(vAllMethods)+1)]
		reqScheme = []string{"http", "https"}[verifapi.NondetChoice("req.scheme", 2)]
	} else {
		// which captured segment carries percent-encoding (both only in the thorough tier)
		switch verifapi.NondetChoice("req.encoded", 7+2*verifapi.Bound("both_encoded", 0)) {
		case 7:
			shape1, shape3 = 1, 2
		case 8:
			shape1, shape3 = 2, 1
		case 1:
			shape1 = 1
		case 2:
			shape1 = 2
		case 3:
			shape3 = 1
		case 4:
			shape3 = 2
		case 5:
			shape1 = 3
		case 6:
			shape3 = 3
		}
	}
	raw1, dec1 := vSegment("req.seg1", shape1)
	raw2, _ := vSegment("req.seg2", 0) // matched by the unnamed wildcard: never exposed
	raw3, dec3 := vSegment("req.seg3", shape3)
	rawPath := "/files/" + raw1 + "/" + raw2 + "/" + raw3
	u, perr := url.ParseRequestURI(rawPath)
	if perr != nil {
		verifapi.Cover("unparsable-request-line")
		return
	}
	// the request view is the one the HTTP entry points build (requestcontext.New / extractURL)
	hr := &http.Request{Method: reqMethod, URL: u, Host: reqHost, Header: http.Header{}, RemoteAddr: "192.0.2.1:4711"}
	if reqScheme == "https" {
		hr.Header.Set("X-Forwarded-Proto", "https") // from a trusted proxy; the middleware is not part of this harness
	}
	ctx := &vLookupCtx{req: requestcontext.New(hr).Request()}
	u = &ctx.req.URL.URL

	found, ferr := repo.FindRule(ctx)
	matched := ferr == nil && found != nil

	// ---- documented meaning ----
	schemeOK := scheme == "" || scheme == reqScheme
	methodOK := vMethodAllowed(methods, reqMethod)
	hostOK := len(hostValues) == 0
	for _, hv := range hostValues {
		if hv == reqHost {
			hostOK = true
		}
	}
	ppOK := true
	if ppMode == 1 || ppMode == 3 {
		ppOK = ppOK && dec1 == wantName
	}
	if ppMode == 2 || ppMode == 3 {
		ppOK = ppOK && dec3 == wantRest
	}
	want := schemeOK && methodOK && hostOK && ppOK
	if want {
		verifapi.Cover("should-match")
	} else {
		verifapi.Cover("should-not-match")
	}
	verifapi.Assert("C03/route-matches-iff-all-conditions-hold", matched == want)
	if !matched {
		return
	}
	// ---- captured values exposed to the pipeline ----
	if _, err := found.Execute(ctx); err != nil {
		verifapi.Assert("C03/matched-rule-executes", false)
		return
	}
	caps := ctx.req.URL.Captures
	verifapi.Cover("captures-checked")
	verifapi.Assert("C03/named-wildcards-exposed", len(caps) == 2)
	verifapi.Assert("C03/single-wildcard-value-decoded", caps["name"] == dec1)
	verifapi.Assert("C03/free-wildcard-value-decoded", caps["rest"] == dec3)
}
