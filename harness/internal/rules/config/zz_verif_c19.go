//go:build verif

package config

import "io"

// Engine-only stand-in of the rule set parser, OFF unless an entry switches it on (VerifUseParseRulesStub):
// the YAML parser is outside the encoding; the entry that uses it only needs "a valid rule set was read".
var verifStubOff_ParseRules = true

func VerifUseParseRulesStub(on bool) { verifStubOff_ParseRules = !on }

func verifStub_ParseRules(string, io.Reader, bool) (*RuleSet, error) {
	return &RuleSet{Version: "1alpha4", Rules: []Rule{{ID: "r"}}}, nil
}
