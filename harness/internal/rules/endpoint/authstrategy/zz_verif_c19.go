//go:build verif

package authstrategy

import (
	"crypto"
	"crypto/ecdsa"
	"crypto/elliptic"
	"crypto/rand"
	"crypto/rsa"
	"crypto/x509"
	"encoding/pem"
	"fmt"
	"io"
	"os"
	"path/filepath"

	"github.com/rs/zerolog"

	"github.com/dadrus/heimdall/internal/keystore"
	"github.com/dadrus/heimdall/internal/verifapi"
)

type vOpaqueSigner struct{ pub crypto.PublicKey }

func (s vOpaqueSigner) Public() crypto.PublicKey { return s.pub }
func (s vOpaqueSigner) Sign(io.Reader, []byte, crypto.SignerOpts) ([]byte, error) {
	return nil, nil
}

// VerifC19HTTPSigReload: whatever the key store file of an http_message_signatures strategy contains
// when it is (re)loaded — empty, keys of unsupported sizes, every supported key incl. P-521, a missing
// key id — init / the reload callback return (the callback runs on the watcher's goroutine, which has
// no recovery); every supported key is accepted.
func VerifC19HTTPSigReload() {
	type keyDesc struct {
		alg  string
		size int
		kid  string
	}
	shapes := [][]keyDesc{
		{}, // empty / truncated to nothing
		{{keystore.AlgECDSA, 256, "k1"}},
		{{keystore.AlgECDSA, 384, "k1"}},
		{{keystore.AlgECDSA, 521, "k1"}}, // P-521: supported by the key store and documented
		{{keystore.AlgRSA, 2048, "k1"}},
		{{keystore.AlgRSA, 1024, "k1"}},  // unsupported RSA size
		{{keystore.AlgECDSA, 224, "k1"}}, // unsupported curve
		{{keystore.AlgECDSA, 256, "k1"}, {keystore.AlgRSA, 1024, "k2"}},
	}
	shapeNo := verifapi.NondetChoice("key_store", len(shapes))
	shape := shapes[shapeNo]
	keyID := []string{"", "k1", "k2", "missing"}[verifapi.NondetChoice("signer.key_id", 4)]

	s := &HTTPMessageSignatures{Signer: SignerConfig{KeyStore: KeyStore{Path: "/keys/signer.pem"}, KeyID: keyID},
		Components: []string{"@method"}, Label: "sig"}
	if verifapi.Symbolic() {
		var entries []*keystore.Entry
		for _, k := range shape {
			entries = append(entries, &keystore.Entry{KeyID: k.kid, Alg: k.alg, KeySize: k.size, PrivateKey: vOpaqueSigner{pub: "public-" + k.kid}})
		}
		keystore.VerifKeyStore, keystore.VerifKeyStoreErr = entries, nil
	} else {
		dir, err := os.MkdirTemp("", "verif-c19-")
		if err != nil {
			panic(err)
		}
		defer os.RemoveAll(dir)
		s.Signer.KeyStore.Path = filepath.Join(dir, "signer.pem")
		var out []byte
		for _, k := range shape {
			var der []byte
			if k.alg == keystore.AlgRSA {
				key, _ := rsa.GenerateKey(rand.Reader, k.size)
				der, _ = x509.MarshalPKCS8PrivateKey(key)
			} else {
				curve := map[int]elliptic.Curve{224: elliptic.P224(), 256: elliptic.P256(), 384: elliptic.P384(), 521: elliptic.P521()}[k.size]
				key, _ := ecdsa.GenerateKey(curve, rand.Reader)
				der, _ = x509.MarshalPKCS8PrivateKey(key)
			}
			out = append(out, pem.EncodeToMemory(&pem.Block{Type: "PRIVATE KEY", Headers: map[string]string{"X-Key-ID": k.kid}, Bytes: der})...)
		}
		os.WriteFile(s.Signer.KeyStore.Path, out, 0o600)
	}

	crashed := ""
	var initErr error
	func() {
		defer func() {
			if r := recover(); r != nil {
				crashed = fmt.Sprint(r)
			}
		}()
		initErr = s.init()
		s.OnChanged(zerolog.Nop())
	}()
	verifapi.Cover("loaded")
	verifapi.Observe("crashed", crashed)
	verifapi.Assert("C19/http-message-signatures/load-and-reload-never-panic", crashed == "")

	// which key would be selected, and is it usable?
	usable := func(k keyDesc) bool {
		return (k.alg == keystore.AlgECDSA && (k.size == 256 || k.size == 384 || k.size == 521)) ||
			(k.alg == keystore.AlgRSA && (k.size == 2048 || k.size == 3072 || k.size == 4096))
	}
	var selected *keyDesc
	for i := range shape {
		if (keyID == "" && i == 0) || keyID == shape[i].kid {
			selected = &shape[i]
			break
		}
	}
	// every key of the store is published, so one unsupported key makes the whole store unusable
	allUsable := true
	for _, k := range shape {
		allUsable = allUsable && usable(k)
	}
	if crashed == "" {
		if selected != nil && allUsable {
			verifapi.Cover("usable-key")
			verifapi.Assert("C19/http-message-signatures/supported-key-accepted", initErr == nil)
		} else {
			verifapi.Cover("unusable-key")
			verifapi.Assert("C19/http-message-signatures/unusable-key-store-rejected-with-an-error", initErr != nil)
		}
	}
}
