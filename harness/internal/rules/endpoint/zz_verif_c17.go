//go:build verif

package endpoint

import (
	"context"

	"github.com/dadrus/heimdall/internal/verifapi"
)

// VerifC17CreateRequest: building the request for a remote call (part of every Execute of a mechanism
// with an endpoint) does not write to the endpoint configuration shared by prototype and variants.
func VerifC17CreateRequest() {
	e := Endpoint{URL: "http://remote.local/" + string([]byte{verifapi.NondetByteRange("url", 'a', 'z')}), Method: []string{"", "GET", "POST"}[verifapi.NondetChoice("method", 3)]}
	switch verifapi.NondetChoice("headers", 3) {
	case 1:
		e.Headers = map[string]string{"X-User": "{{ .Subject.ID }}"}
	case 2:
		e.Headers = map[string]string{"X-User": "{{ .Subject.ID }}", "X-Static": verifapi.NondetStringN("static", 1)}
	}
	snap := verifapi.Snapshot(&e)
	renderings := 0
	rndr := RenderFunc(func(tpl string) (string, error) {
		renderings++
		if tpl == "{{ .Subject.ID }}" {
			return "alice", nil
		}
		return tpl, nil
	})
	req, err := e.CreateRequest(context.Background(), nil, rndr)
	verifapi.Cover("request-created")
	verifapi.Assert("C17/endpoint/create-request-succeeds", err == nil && req != nil)
	verifapi.Assert("C17/endpoint/configuration-unchanged-by-create-request", !verifapi.Changed(snap))
	if len(e.Headers) != 0 {
		verifapi.Assert("C17/endpoint/header-template-still-in-configuration", e.Headers["X-User"] == "{{ .Subject.ID }}")
		verifapi.Assert("C17/endpoint/rendered-header-on-request", req.Header.Get("X-User") == "alice")
	}
}
