//go:build verif

package endpoint

import (
	"bytes"

	"github.com/dadrus/heimdall/internal/verifapi"
)

// VerifC11EndpointHashDeterministic: Endpoint.Hash (part of every cache key) does not depend on the
// iteration order of the headers map; endpoints differing in a header value hash differently.
func VerifC11EndpointHashDeterministic() {
	reps := 2
	if !verifapi.Symbolic() {
		reps = 64
	}
	e := Endpoint{URL: "http://" + verifapi.NondetStringN("url", 2), Method: "GET", Headers: map[string]string{
		"X-A": verifapi.NondetStringN("hdr.a", 2), "X-B": verifapi.NondetStringN("hdr.b", 2), "X-C": verifapi.NondetStringN("hdr.c", 1)}}
	first := e.Hash()
	for i := 1; i < reps; i++ {
		verifapi.Cover("recomputed")
		verifapi.Assert("C11/endpoint/hash-independent-of-map-iteration-order", bytes.Equal(e.Hash(), first))
	}
	other := Endpoint{URL: e.URL, Method: "GET", Headers: map[string]string{
		"X-A": verifapi.NondetStringN("hdr2.a", 2), "X-B": e.Headers["X-B"], "X-C": e.Headers["X-C"]}}
	if other.Headers["X-A"] != e.Headers["X-A"] {
		verifapi.Cover("different-endpoint")
		verifapi.Assert("C11/endpoint/different-headers-different-hash", !bytes.Equal(other.Hash(), first))
	}
}
