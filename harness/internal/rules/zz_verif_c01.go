//go:build verif

package rules

import (
	"errors"

	"github.com/dadrus/heimdall/internal/heimdall"
	"github.com/dadrus/heimdall/internal/rules/config"
	"github.com/dadrus/heimdall/internal/rules/mechanisms/subject"
	"github.com/dadrus/heimdall/internal/rules/rule"
	"github.com/dadrus/heimdall/internal/verifapi"
	"github.com/dadrus/heimdall/internal/x/errorchain"
)

// ---------------------------------------------------------------------------
// C01: a pipeline assembled from the real composites / conditionals / rule
// implementation / repository / executor, with stub mechanisms whose outcomes
// are nondeterministic and drawn lazily (only when a step is actually asked).
// The specification (DESIGN.md appendix B.1, from concepts/pipelines.adoc and
// rules/regular_rule.adoc) replays the same lazily drawn outcomes.
// ---------------------------------------------------------------------------

// step outcomes
const (
	voOK = iota
	voArgument      // ErrArgument chain ("no credentials of this kind")
	voAuthn         // ErrAuthentication chain
	voAuthz         // ErrAuthorization
	voCommunication // ErrCommunication chain wrapped by fmt
	voForeign       // an error heimdall knows nothing about
	voPanicErr      // panic(error)
	voPanicStr      // panic("...")
	voCount
)

// conditions
const (
	vcNone  = iota // no `if`
	vcTrue         // evaluates to true
	vcFalse        // evaluates to false
	vcError        // cannot be evaluated
	vcCount
)

// CEL expressions used for the three condition results. The engine stubs
// cel-go and interprets exactly these texts; natively they are real CEL.
const (
	VerifCelTrue  = `true`
	VerifCelFalse = `false`
	VerifCelError = `Request.Header("X-Verif-Missing") == "a" || Request.URL.Captures["verif-no-such-key"] == "b"`
)

var errVerifForeign = errors.New("foreign error")

// VerifUpstreamHost is the forward_to host of the generated rule (a test server natively).
var VerifUpstreamHost = "upstream.verif:8080"

// VerifPlan memoises the lazily drawn nondeterministic choices of one run.
type VerifPlan struct {
	NAuthn, NSubjectHandlers, NFinalizers, NErrorHandlers int

	outcome   map[string]int
	flag      map[string]bool
	cond      map[string]int
	Executed  []string // trace of executed steps (evidence / debugging)
	PanicSeen bool
}

func newVerifPlan() *VerifPlan {
	return &VerifPlan{outcome: map[string]int{}, flag: map[string]bool{}, cond: map[string]int{}}
}

func (p *VerifPlan) Outcome(step string, n int) int {
	if v, ok := p.outcome[step]; ok {
		return v
	}
	v := verifapi.NondetChoice("outcome:"+step, n)
	p.outcome[step] = v
	return v
}

func (p *VerifPlan) Flag(name string) bool {
	if v, ok := p.flag[name]; ok {
		return v
	}
	v := verifapi.NondetBool("flag:" + name)
	p.flag[name] = v
	return v
}

func (p *VerifPlan) Cond(step string) int {
	if v, ok := p.cond[step]; ok {
		return v
	}
	v := verifapi.NondetChoice("cond:"+step, vcCount)
	p.cond[step] = v
	return v
}

func verifErr(o int) error {
	switch o {
	case voArgument:
		return errorchain.NewWithMessage(heimdall.ErrAuthentication, "no auth data").CausedBy(heimdall.ErrArgument)
	case voAuthn:
		return errorchain.NewWithMessage(heimdall.ErrAuthentication, "bad credentials")
	case voAuthz:
		return errorchain.NewWithMessage(heimdall.ErrAuthorization, "denied")
	case voCommunication:
		return errorchain.NewWithMessage(heimdall.ErrCommunication, "endpoint unreachable").CausedBy(errVerifForeign)
	default:
		return errVerifForeign
	}
}

func (p *VerifPlan) run(step string) error {
	p.Executed = append(p.Executed, step)
	o := p.Outcome(step, voCount)
	switch o {
	case voOK:
		return nil
	case voPanicErr:
		p.PanicSeen = true
		panic(errVerifForeign)
	case voPanicStr:
		p.PanicSeen = true
		panic("verif: mechanism panic")
	}
	return verifErr(o)
}

// ---- stub mechanisms ----

type vAuthn struct {
	p    *VerifPlan
	name string
}

func (a *vAuthn) Execute(_ heimdall.Context) (*subject.Subject, error) {
	if err := a.p.run(a.name); err != nil {
		return nil, err
	}
	return &subject.Subject{ID: a.name}, nil
}
func (a *vAuthn) IsFallbackOnErrorAllowed() bool { return a.p.Flag("fallback:" + a.name) }

type vHandler struct {
	p    *VerifPlan
	name string
}

func (h *vHandler) ID() string { return h.name }
func (h *vHandler) Execute(_ heimdall.Context, _ *subject.Subject) error {
	return h.p.run(h.name)
}
func (h *vHandler) ContinueOnError() bool { return h.p.Flag("continue:" + h.name) }

// error handler kinds
const (
	vehDefault = iota // real semantics of the default error handler: record the cause
	vehRedirect       // real semantics of the redirect error handler
	vehWWWAuthenticate
	vehFailing // handler that itself fails (e.g. template rendering error)
	vehCount
)

type vErrorHandler struct {
	p    *VerifPlan
	name string
}

func (h *vErrorHandler) ID() string { return h.name }
func (h *vErrorHandler) Execute(ctx heimdall.Context, cause error) error {
	h.p.Executed = append(h.p.Executed, h.name)
	switch h.p.Outcome(h.name, vehCount) {
	case vehDefault:
		ctx.SetPipelineError(cause)
		return nil
	case vehRedirect:
		ctx.SetPipelineError(&heimdall.RedirectError{Message: "redirect", Code: 302, RedirectTo: "https://idp.example/login"})
		return nil
	case vehWWWAuthenticate:
		ctx.AddHeaderForUpstream("WWW-Authenticate", "Basic realm=verif")
		ctx.SetPipelineError(heimdall.ErrAuthentication)
		return nil
	default:
		return errorchain.NewWithMessage(heimdall.ErrInternal, "failed to render 'to' url")
	}
}

func verifCondition(c int) executionCondition {
	var expr string
	switch c {
	case vcTrue:
		expr = VerifCelTrue
	case vcFalse:
		expr = VerifCelFalse
	default:
		expr = VerifCelError
	}
	cond, err := newCelExecutionCondition(expr)
	if err != nil {
		panic("verif: CEL expression does not compile: " + err.Error())
	}
	return cond
}

type vFactory struct{ dr rule.Rule }

func (f *vFactory) CreateRule(string, string, config.Rule) (rule.Rule, error) { return nil, nil }
func (f *vFactory) DefaultRule() rule.Rule                                    { return f.dr }
func (f *vFactory) HasDefaultRule() bool                                      { return f.dr != nil }

type vAlwaysMatcher struct{}

func (vAlwaysMatcher) Matches(*heimdall.Request, []string, []string) error { return nil }

// VerifC01Setup is what a harness in a handler package receives.
type VerifC01Setup struct {
	Plan     *VerifPlan
	Executor rule.Executor
	RuleMode int // 0: a regular rule matches, 1: only the default rule applies, 2: no rule at all
}

func (p *VerifPlan) buildRule(id string, isDefault bool, withBackend bool) *ruleImpl {
	r := &ruleImpl{id: id, srcID: "verif", isDefault: isDefault, slashesHandling: config.EncodedSlashesOff}
	for i := 0; i < p.NAuthn; i++ {
		r.sc = append(r.sc, &vAuthn{p: p, name: id + ".authn" + string(rune('0'+i))})
	}
	wrap := func(h *vHandler) subjectHandler {
		if c := p.Cond(h.name); c != vcNone {
			return &conditionalSubjectHandler{h: h, c: verifCondition(c)}
		}
		return h
	}
	for i := 0; i < p.NSubjectHandlers; i++ {
		r.sh = append(r.sh, wrap(&vHandler{p: p, name: id + ".handler" + string(rune('0'+i))}))
	}
	for i := 0; i < p.NFinalizers; i++ {
		r.fi = append(r.fi, wrap(&vHandler{p: p, name: id + ".finalizer" + string(rune('0'+i))}))
	}
	for i := 0; i < p.NErrorHandlers; i++ {
		h := &vErrorHandler{p: p, name: id + ".errorhandler" + string(rune('0'+i))}
		if c := p.Cond(h.name); c != vcNone {
			r.eh = append(r.eh, &conditionalErrorHandler{h: h, c: verifCondition(c)})
		} else {
			r.eh = append(r.eh, h)
		}
	}
	if withBackend {
		r.backend = &config.Backend{Host: VerifUpstreamHost}
	}
	return r
}

// VerifC01Build assembles repository + executor around one rule.
func VerifC01Build(withBackend bool) *VerifC01Setup {
	p := newVerifPlan()
	p.NAuthn = 1 + verifapi.NondetChoice("n.authn", verifapi.Bound("max_authn", 2))
	p.NSubjectHandlers = verifapi.NondetChoice("n.handlers", 1+verifapi.Bound("max_handlers", 2))
	p.NFinalizers = verifapi.NondetChoice("n.finalizers", 1+verifapi.Bound("max_finalizers", 1))
	p.NErrorHandlers = verifapi.NondetChoice("n.errorhandlers", 1+verifapi.Bound("max_errorhandlers", 2))
	mode := verifapi.NondetChoice("rule.mode", 3)

	var dr rule.Rule
	if mode == 1 {
		dr = p.buildRule("rule", true, withBackend)
	}
	repo := newRepository(&vFactory{dr: dr})
	if mode == 0 {
		r := p.buildRule("rule", false, withBackend)
		r.routes = []rule.Route{&routeImpl{rule: r, path: "/**", matcher: vAlwaysMatcher{}}}
		if err := repo.AddRuleSet("verif", []rule.Rule{r}); err != nil {
			panic(err)
		}
	}
	return &VerifC01Setup{Plan: p, Executor: newRuleExecutor(repo), RuleMode: mode}
}

// SpecPipelineOK is the documented outcome of the pipeline for the drawn
// (and, where not yet drawn, now drawn) step outcomes:
//
//	authOK     := exists i. outcome(authn_i)=ok and for all j<i: argument-kind(outcome(authn_j)) or fallback_j
//	stage S ok := every step of S, in order: continue-on-error, or `if` false, or (`if` absent/true and outcome ok);
//	              a condition that cannot be evaluated, or a panic, is a failure
func (s *VerifC01Setup) SpecPipelineOK() bool {
	p := s.Plan
	if s.RuleMode == 2 {
		return false
	}
	authOK := false
	for i := 0; i < p.NAuthn && !authOK; i++ {
		name := "rule.authn" + string(rune('0'+i))
		o := p.Outcome(name, voCount)
		switch {
		case o == voOK:
			authOK = true
		case o == voPanicErr || o == voPanicStr:
			return false
		case o == voArgument || p.Flag("fallback:"+name):
			continue
		default:
			return false
		}
	}
	if !authOK {
		return false
	}
	stage := func(kind string, n int) bool {
		for i := 0; i < n; i++ {
			name := "rule." + kind + string(rune('0'+i))
			switch p.Cond(name) {
			case vcFalse:
				continue
			case vcError:
				// a condition that cannot be evaluated fails the pipeline, unless the step is
				// marked continue-on-error (such steps are exempt from the requirement)
				if p.Flag("continue:" + name) {
					continue
				}
				return false
			}
			o := p.Outcome(name, voCount)
			switch {
			case o == voOK:
			case o == voPanicErr || o == voPanicStr:
				return false
			case p.Flag("continue:" + name):
			default:
				return false
			}
		}
		return true
	}
	return stage("handler", p.NSubjectHandlers) && stage("finalizer", p.NFinalizers)
}
