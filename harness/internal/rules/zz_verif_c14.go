//go:build verif

package rules

import (
	"github.com/rs/zerolog"

	"github.com/dadrus/heimdall/internal/config"
	config2 "github.com/dadrus/heimdall/internal/rules/config"
	"github.com/dadrus/heimdall/internal/verifapi"
)

// ---------------------------------------------------------------------------
// C14: stage-wise inheritance from the default rule; malformed rules rejected.
// Reference from concepts/rules.adoc and rules/default_rule.adoc.
// ---------------------------------------------------------------------------

const (
	vskAuthn = iota
	vskAuthz
	vskCtx
	vskFin
	vskUnknownKey // a step without a known mechanism key
	vskCount
)

var vStepKeys = []string{"authenticator", "authorizer", "contextualizer", "finalizer", "something_else"}
var vStepTags = []string{"authn", "authz", "ctx", "fin", "?"}

type vStepDef struct {
	kind    int
	id      string
	unknown bool // references a mechanism that is not in the catalogue
	bad     bool // carries an override the mechanism rejects
	cond    bool // has an `if`
	cfg     bool // has a (valid) override
}

// vGenSteps draws a sequence of 0..max steps with arbitrary kinds and decorations.
func vGenSteps(prefix string, max int, errorHandlers bool) ([]vStepDef, []config.MechanismConfig) {
	n := verifapi.NondetChoice(prefix+".n", max+1)
	var defs []vStepDef
	var confs []config.MechanismConfig
	// at most one step carries a decoration (unknown id / bad override / `if` / override)
	decorated, decoration := -1, 0
	if n > 0 {
		if d := verifapi.NondetChoice(prefix+".decoration", 1+4*n); d > 0 {
			decorated, decoration = (d-1)/4, 1+(d-1)%4
		}
	}
	for i := 0; i < n; i++ {
		d := vStepDef{id: prefix + string(rune('0'+i))}
		key := "error_handler"
		if errorHandlers {
			if verifapi.NondetChoice(prefix+".eh.valid", 4) == 0 {
				key = "something_else"
				d.kind = vskUnknownKey
			}
		} else {
			d.kind = verifapi.NondetChoice(prefix+".kind", vskCount)
			key = vStepKeys[d.kind]
		}
		dec := 0
		if i == decorated {
			dec = decoration
		}
		switch dec {
		case 1:
			d.unknown = true
			d.id = "unknown-" + d.id
		case 2:
			d.bad = true
		case 3:
			d.cond = true
		case 4:
			d.cfg = true
		}
		mc := config.MechanismConfig{key: d.id}
		if d.bad {
			mc["config"] = map[string]any{"bad": true}
		}
		if d.cfg {
			mc["config"] = map[string]any{"some": "override"}
		}
		if d.cond && (errorHandlers || d.kind != vskAuthn) {
			mc["if"] = VerifCelTrue
		}
		defs = append(defs, d)
		confs = append(confs, mc)
	}
	return defs, confs
}

type vStages struct {
	authn, handlers, fin, eh []string
}

// vClassify is the documented validity check of an execute list and its split into stages.
func vClassify(steps []vStepDef, ehs []vStepDef) (vStages, bool) {
	var st vStages
	phase := 0 // 0 authenticators, 1 authorizers/contextualizers, 2 finalizers
	for _, s := range steps {
		if s.kind == vskUnknownKey || s.unknown || s.bad {
			return st, false
		}
		tag := vStepTags[s.kind] + ":" + s.id
		if s.cfg {
			tag += "+cfg"
		}
		switch s.kind {
		case vskAuthn:
			if phase > 0 {
				return st, false
			}
			st.authn = append(st.authn, tag)
		case vskAuthz, vskCtx:
			if phase > 1 {
				return st, false
			}
			phase = 1
			st.handlers = append(st.handlers, tag)
		case vskFin:
			phase = 2
			st.fin = append(st.fin, tag)
		}
	}
	for _, s := range ehs {
		if s.kind == vskUnknownKey || s.unknown || s.bad {
			return st, false
		}
		tag := "eh:" + s.id
		if s.cfg {
			tag += "+cfg"
		}
		st.eh = append(st.eh, tag)
	}
	return st, true
}

func vTagsOfCreators(sc compositeSubjectCreator) []string {
	var r []string
	for _, a := range sc {
		r = append(r, a.(*vMAuthn).tag())
	}
	return r
}

func vTagsOfHandlers(sh compositeSubjectHandler) []string {
	var r []string
	for _, h := range sh {
		inner := h.(*conditionalSubjectHandler).h
		switch m := inner.(type) {
		case *vMAuthz:
			r = append(r, m.tag())
		case *vMCtx:
			r = append(r, m.tag())
		case *vMFin:
			r = append(r, m.tag())
		}
	}
	return r
}

func vTagsOfErrorHandlers(eh compositeErrorHandler) []string {
	var r []string
	for _, h := range eh {
		r = append(r, h.(*conditionalErrorHandler).h.(*vMEH).tag())
	}
	return r
}

func vSameTags(a, b []string) bool {
	if len(a) != len(b) {
		return false
	}
	for i := range a {
		if a[i] != b[i] {
			return false
		}
	}
	return true
}

// VerifC14Pipeline: every execute list x every default rule (stage classification, order checks, inheritance).
func VerifC14Pipeline() { verifC14(true) }

// VerifC14Settings: backtracking inheritance, operation mode / forward_to, error pipelines.
func VerifC14Settings() { verifC14(false) }

func verifC14(pipelineAspect bool) {
	maxSteps := verifapi.Bound("max_steps", 3)
	mf := &vMechFactory{}
	mode := config.DecisionMode
	if !pipelineAspect && verifapi.NondetBool("proxy_mode") {
		mode = config.ProxyMode
	}
	f := &ruleFactory{hf: mf, mode: mode, logger: zerolog.Nop()}

	// ---- default rule: absent, or one of a catalogue of valid default rules ----
	var def vStages
	hasDefault := false
	defBacktracking := false
	switch verifapi.NondetChoice("default_rule", 4) {
	case 1: // only authenticators
		hasDefault = true
		def = vStages{authn: []string{"authn:d-a"}}
		verifapi.Assert("C14/valid-default-rule-accepted", f.initWithDefaultRule(&config.DefaultRule{
			Execute: []config.MechanismConfig{{"authenticator": "d-a"}}}, zerolog.Nop()) == nil)
	case 2: // complete, backtracking enabled
		hasDefault, defBacktracking = true, true
		def = vStages{authn: []string{"authn:d-a", "authn:d-a2"}, handlers: []string{"authz:d-z", "ctx:d-c"}, fin: []string{"fin:d-f"}, eh: []string{"eh:d-e"}}
		verifapi.Assert("C14/valid-default-rule-accepted", f.initWithDefaultRule(&config.DefaultRule{
			BacktrackingEnabled: true,
			Execute: []config.MechanismConfig{{"authenticator": "d-a"}, {"authenticator": "d-a2"}, {"authorizer": "d-z"},
				{"contextualizer": "d-c"}, {"finalizer": "d-f"}},
			ErrorHandler: []config.MechanismConfig{{"error_handler": "d-e"}}}, zerolog.Nop()) == nil)
	case 3: // authenticator + finalizer + error handler, backtracking disabled
		hasDefault = true
		def = vStages{authn: []string{"authn:d-a"}, fin: []string{"fin:d-f"}, eh: []string{"eh:d-e"}}
		verifapi.Assert("C14/valid-default-rule-accepted", f.initWithDefaultRule(&config.DefaultRule{
			Execute:      []config.MechanismConfig{{"authenticator": "d-a"}, {"finalizer": "d-f"}},
			ErrorHandler: []config.MechanismConfig{{"error_handler": "d-e"}}}, zerolog.Nop()) == nil)
	}

	// ---- rule definition ----
	var steps, ehs []vStepDef
	var execute, onError []config.MechanismConfig
	btChoice := 0
	if pipelineAspect {
		steps, execute = vGenSteps("s", maxSteps, false)
	} else {
		switch verifapi.NondetChoice("execute", 3) {
		case 1:
			steps, execute = []vStepDef{{kind: vskAuthn, id: "s0"}}, []config.MechanismConfig{{"authenticator": "s0"}}
		case 2:
			steps = []vStepDef{{kind: vskAuthn, id: "s0"}, {kind: vskFin, id: "s1"}}
			execute = []config.MechanismConfig{{"authenticator": "s0"}, {"finalizer": "s1"}}
		}
		ehs, onError = vGenSteps("e", verifapi.Bound("max_error_handlers", 2), true)
		btChoice = verifapi.NondetChoice("backtracking_enabled", 3)
	}
	var bt *bool
	switch btChoice {
	case 1:
		v := true
		bt = &v
	case 2:
		v := false
		bt = &v
	}
	var backend *config2.Backend
	if !pipelineAspect && verifapi.NondetBool("forward_to") {
		backend = &config2.Backend{Host: "upstream:8080"}
	}
	rc := config2.Rule{ID: "rule", Matcher: config2.Matcher{Routes: []config2.Route{{Path: "/x"}}, BacktrackingEnabled: bt},
		Backend: backend, Execute: execute, ErrorHandler: onError}

	rul, err := f.CreateRule("1alpha4", "verif", rc)

	// ---- documented outcome ----
	own, valid := vClassify(steps, ehs)
	eff := own
	if hasDefault {
		if len(own.authn) == 0 {
			eff.authn = def.authn
		}
		if len(own.handlers) == 0 {
			eff.handlers = def.handlers
		}
		if len(own.fin) == 0 {
			eff.fin = def.fin
		}
		if len(own.eh) == 0 {
			eff.eh = def.eh
		}
	}
	wantAccepted := valid && len(eff.authn) != 0 && (mode != config.ProxyMode || backend != nil)
	wantBacktracking := defBacktracking
	if bt != nil {
		wantBacktracking = *bt
	}

	if !wantAccepted {
		verifapi.Cover("rejected")
		verifapi.Assert("C14/malformed-rule-rejected", err != nil)
		return
	}
	verifapi.Cover("accepted")
	verifapi.Assert("C14/well-formed-rule-accepted", err == nil && rul != nil)
	ri := rul.(*ruleImpl)
	verifapi.Assert("C14/effective-authentication-stage", vSameTags(vTagsOfCreators(ri.sc), eff.authn))
	verifapi.Assert("C14/effective-authorization-contextualization-stage", vSameTags(vTagsOfHandlers(ri.sh), eff.handlers))
	verifapi.Assert("C14/effective-finalization-stage", vSameTags(vTagsOfHandlers(ri.fi), eff.fin))
	verifapi.Assert("C14/effective-error-handling-stage", vSameTags(vTagsOfErrorHandlers(ri.eh), eff.eh))
	verifapi.Region("KF-C14-backtracking-ignored-without-default-rule", !hasDefault && bt != nil && *bt)
	verifapi.Assert("C14/backtracking-own-else-default-else-off", ri.AllowsBacktracking() == wantBacktracking)
	if hasDefault {
		verifapi.Cover("with-default-rule")
	} else {
		verifapi.Cover("without-default-rule")
	}
}
