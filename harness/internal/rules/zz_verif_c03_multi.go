//go:build verif

package rules

import (
	"net/url"

	"github.com/rs/zerolog"

	"github.com/dadrus/heimdall/internal/config"
	"github.com/dadrus/heimdall/internal/heimdall"
	config2 "github.com/dadrus/heimdall/internal/rules/config"
	"github.com/dadrus/heimdall/internal/rules/rule"
	"github.com/dadrus/heimdall/internal/verifapi"
)

// VerifC03MultiRoute: a rule with several routes, each with its own path_params, and any combination
// of the rule-wide conditions (scheme, methods, hosts) configured or not. A request matches through a
// route iff the rule-wide conditions hold and THAT route's path_params hold — the conditions of one
// route never leak into another.
func VerifC03MultiRoute() {
	withScheme, withMethods, withHosts := verifapi.NondetBool("rule.scheme.configured"), verifapi.NondetBool("rule.methods.configured"), verifapi.NondetBool("rule.hosts.configured")
	nRoutes := 2 + verifapi.NondetChoice("rule.extra-route", 2)
	letter := func(name string) string {
		return string([]byte{verifapi.NondetByteRange(name, 'a', 'z')})
	}
	wants := []string{letter("route0.want"), letter("route1.want"), letter("route2.want")}
	prefixes := []string{"/users/", "/teams/", "/orders/"}
	wild := []string{"id", "name", "id"} // the first and the third route use the same wildcard name
	m := config2.Matcher{}
	for i := 0; i < nRoutes; i++ {
		m.Routes = append(m.Routes, config2.Route{Path: prefixes[i] + ":" + wild[i],
			PathParams: []config2.ParameterMatcher{{Name: wild[i], Type: "exact", Value: wants[i]}}})
	}
	if withScheme {
		m.Scheme = "https"
	}
	if withMethods {
		m.Methods = []string{"GET", "POST"}
	}
	if withHosts {
		m.Hosts = []config2.HostMatcher{{Type: "exact", Value: "svc.example"}}
	}
	rc := config2.Rule{ID: "rule", Matcher: m, Execute: []config.MechanismConfig{{"authenticator": "a"}}}
	f := &ruleFactory{hf: &vMechFactory{}, mode: config.DecisionMode, logger: zerolog.Nop()}
	rul, err := f.CreateRule("1alpha4", "verif", rc)
	if err != nil {
		verifapi.Assert("C03/valid-rule-accepted", false)
		return
	}
	repo := newRepository(&vFactory{})
	if err := repo.AddRuleSet("verif", []rule.Rule{rul}); err != nil {
		verifapi.Assert("C03/valid-rule-loaded", false)
		return
	}

	route := verifapi.NondetChoice("req.route", nRoutes)
	seg := letter("req.segment")
	u, _ := url.ParseRequestURI(prefixes[route] + seg)
	u.Scheme = []string{"https", "http"}[verifapi.NondetChoice("req.scheme", 2)]
	u.Host = []string{"svc.example", "other.example"}[verifapi.NondetChoice("req.host", 2)]
	method := []string{"GET", "DELETE"}[verifapi.NondetChoice("req.method", 2)]
	ctx := &vLookupCtx{req: &heimdall.Request{Method: method, URL: &heimdall.URL{URL: *u}}}
	found, ferr := repo.FindRule(ctx)
	matched := ferr == nil && found != nil

	want := (!withScheme || u.Scheme == "https") && (!withMethods || method == "GET") && (!withHosts || u.Host == "svc.example") && seg == wants[route]
	if want {
		verifapi.Cover("should-match")
	} else {
		verifapi.Cover("should-not-match")
	}
	verifapi.Assert("C03/multi-route/matches-iff-rule-conditions-and-own-path-params-hold", matched == want)
	if matched {
		verifapi.Assert("C03/multi-route/captured-value-of-the-matching-route", ctx.req.URL.Captures[wild[route]] == seg)
	}
}
