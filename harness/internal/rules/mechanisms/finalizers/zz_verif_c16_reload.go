//go:build verif

package finalizers

import (
	"crypto"
	"crypto/ecdsa"
	"crypto/elliptic"
	"crypto/rand"
	"crypto/x509"
	"encoding/pem"
	"os"
	"path/filepath"
	"time"

	"github.com/go-jose/go-jose/v4"
	"github.com/go-jose/go-jose/v4/jwt"
	"github.com/rs/zerolog"

	"github.com/dadrus/heimdall/internal/keystore"
	"github.com/dadrus/heimdall/internal/verifapi"
)

// VerifC16ReloadWhileSigning: a key store reload that changes the active key runs concurrently with
// the creation of a token. Under every interleaving of the signer's lock acquisitions the token names
// (kid, alg) the key it is signed with, and that key is one of the published ones.
func VerifC16ReloadWhileSigning() {
	type keyDesc struct {
		kid  string
		size int
	}
	first := keyDesc{"key-1", 256}
	second := keyDesc{"key-2", []int{256, 384}[verifapi.NondetChoice("second.size", 2)]}
	stores := [][]keyDesc{{first}, {second, first}} // the reload makes key-2 the active (first) entry

	private := map[string]crypto.Signer{}
	s := &jwtSigner{iss: "heimdall", path: "/keys/signer.pem"}
	writeStore := func(keys []keyDesc) {}
	if verifapi.Symbolic() {
		writeStore = func(keys []keyDesc) {
			var entries []*keystore.Entry
			for _, k := range keys {
				if private[k.kid] == nil {
					private[k.kid] = vOpaqueSigner{pub: "public-" + k.kid}
				}
				entries = append(entries, &keystore.Entry{KeyID: k.kid, Alg: keystore.AlgECDSA, KeySize: k.size, PrivateKey: private[k.kid]})
			}
			keystore.VerifKeyStore, keystore.VerifKeyStoreErr = entries, nil
		}
	} else {
		dir, err := os.MkdirTemp("", "verif-c16-")
		if err != nil {
			panic(err)
		}
		defer os.RemoveAll(dir)
		s.path = filepath.Join(dir, "signer.pem")
		ders := map[string][]byte{}
		writeStore = func(keys []keyDesc) {
			var out []byte
			for _, k := range keys {
				if private[k.kid] == nil {
					curve := elliptic.P256()
					if k.size == 384 {
						curve = elliptic.P384()
					}
					key, _ := ecdsa.GenerateKey(curve, rand.Reader)
					private[k.kid] = key
					ders[k.kid], _ = x509.MarshalPKCS8PrivateKey(key)
				}
				out = append(out, pem.EncodeToMemory(&pem.Block{Type: "PRIVATE KEY", Headers: map[string]string{"X-Key-ID": k.kid}, Bytes: ders[k.kid]})...)
			}
			if err := os.WriteFile(s.path, out, 0o600); err != nil {
				panic(err)
			}
		}
	}

	writeStore(stores[0])
	if err := s.load(); err != nil {
		verifapi.Assert("C16/initial-key-store-loads", false)
		return
	}
	writeStore(stores[1]) // the file changes; the watcher will call OnChanged
	logger := zerolog.Nop()

	var raw string
	var signErr error
	var signedKey any
	var signedKid, signedAlg string
	var published []jose.JSONWebKey
	verifapi.Concurrent("C16")
	verifapi.Go("reload", func() { s.OnChanged(logger) })
	verifapi.Go("sign", func() {
		raw, signErr = s.Sign("alice", time.Minute, nil)
		if verifapi.Symbolic() {
			signedKey = VerifSignedKey
			signedKid, _ = VerifSignedHeaders["kid"].(string)
			signedAlg = string(VerifSignedAlg)
		}
		published = s.Keys()
	})
	verifapi.Join()
	verifapi.Cover("reloaded-while-signing")

	consistent := false
	if verifapi.Symbolic() {
		// what the (stubbed) signer was given: the private key, and the kid / alg it puts into the header
		want := jose.ES256
		if signedKid == "key-2" && second.size == 384 {
			want = jose.ES384
		}
		consistent = signErr == nil && (signedKid == "key-1" || signedKid == "key-2") &&
			signedKey == any(private[signedKid]) && signedAlg == string(want)
	} else if signErr == nil {
		if tok, err := jwt.ParseSigned(raw, []jose.SignatureAlgorithm{jose.ES256, jose.ES384}); err == nil {
			signedKid = tok.Headers[0].KeyID
			if k := private[signedKid]; k != nil {
				claims := map[string]any{}
				consistent = tok.Claims(k.Public(), &claims) == nil
			}
		}
	}
	verifapi.Assert("C16/token-names-the-key-it-is-signed-with", consistent)

	// the key set seen right after creating the token contains the key named in the token
	found := false
	for _, k := range published {
		found = found || k.KeyID == signedKid
	}
	verifapi.Assert("C16/token-key-is-published", found)

	// after the reload the new active key is in effect
	verifapi.Assert("C16/reload-takes-effect", s.jwk.KeyID == "key-2" && len(s.Keys()) == 2)
}
