//go:build verif

package finalizers

import (
	"crypto"
	"crypto/ecdsa"
	"crypto/elliptic"
	"crypto/rand"
	"time"

	"github.com/go-jose/go-jose/v4"
	"github.com/go-jose/go-jose/v4/jwt"

	"github.com/dadrus/heimdall/internal/keystore"
	"github.com/dadrus/heimdall/internal/verifapi"
)

// ---------------------------------------------------------------------------
// C16: system claims of issued tokens, kid/alg of the key actually used, public-only key set.
// In the engine go-jose's signer/builder are stubs that publish what would be signed.
// ---------------------------------------------------------------------------

var (
	VerifSignedClaims  map[string]any
	VerifSignedHeaders map[jose.HeaderKey]any
	VerifSignedAlg     jose.SignatureAlgorithm
	VerifSignedKey     any
)

var vC16Reserved = []string{"sub", "iss", "iat", "nbf", "exp", "jti", "aud", "x"}

func vInt(v any) (int64, bool) {
	switch x := v.(type) {
	case int64:
		return x, true
	case int:
		return int64(x), true
	case float64:
		return int64(x), true
	}
	return 0, false
}

// VerifC16Claims: sub, iss, iat, nbf, exp of a created token are the system values whatever the custom
// claims say; kid and alg name the key that signs.
func VerifC16Claims() {
	var signing crypto.Signer
	var public any
	if !verifapi.Symbolic() {
		k, _ := ecdsa.GenerateKey(elliptic.P256(), rand.Reader)
		signing, public = k, &k.PublicKey
	}
	s := &jwtSigner{iss: "heimdall-verif", key: signing, jwk: jose.JSONWebKey{KeyID: "key-1", Algorithm: "ES256", Key: public, Use: "sig"}}

	// custom claims: up to three entries with arbitrary (also reserved) names and arbitrary values
	custom := map[string]any{}
	n := verifapi.NondetChoice("custom.count", 1+verifapi.Bound("max_custom_claims", 2))
	for i := 0; i < n; i++ {
		name := vC16Reserved[verifapi.NondetChoice("custom.name", len(vC16Reserved))]
		switch verifapi.NondetChoice("custom.kind", 3) {
		case 0:
			custom[name] = verifapi.NondetStringN("custom.string", 2)
		case 1:
			custom[name] = verifapi.NondetInt("custom.int")
		default:
			custom[name] = map[string]any{"nested": verifapi.NondetStringN("custom.nested", 1)}
		}
	}
	ttl := []time.Duration{time.Second, 90 * time.Second, 5 * time.Minute, 24 * time.Hour}[verifapi.NondetChoice("ttl", 4)]
	sub := verifapi.NondetStringN("subject", 2)
	for i := 0; i < len(sub); i++ { // subject ids are text
		verifapi.Assume(sub[i] >= 'a')
		verifapi.Assume(sub[i] <= 'z')
	}

	before := verifapi.Now().Unix()
	raw, err := s.Sign(sub, ttl, custom)
	after := verifapi.Now().Unix()
	verifapi.Assert("C16/token-created", err == nil && len(raw) != 0)

	claims, kid, alg := VerifSignedClaims, "", ""
	if verifapi.Symbolic() {
		kid, _ = VerifSignedHeaders["kid"].(string)
		alg = string(VerifSignedAlg)
		verifapi.Assert("C16/alg-header-equals-signing-alg", VerifSignedHeaders["alg"] == any(alg))
	} else {
		tok, perr := jwt.ParseSigned(raw, []jose.SignatureAlgorithm{jose.ES256})
		if perr != nil {
			panic(perr)
		}
		claims = map[string]any{}
		// the token verifies with the public half of the key the signer holds
		verifapi.Assert("C16/verifies-with-published-key", tok.Claims(public, &claims) == nil)
		kid, alg = tok.Headers[0].KeyID, tok.Headers[0].Algorithm
	}
	verifapi.Cover("signed")
	verifapi.Assert("C16/kid-of-active-key", kid == "key-1")
	verifapi.Assert("C16/alg-of-active-key", alg == "ES256")
	verifapi.Assert("C16/sub-is-the-authenticated-subject", claims["sub"] == any(sub))
	verifapi.Assert("C16/iss-is-the-configured-signer", claims["iss"] == any("heimdall-verif"))
	iat, ok1 := vInt(claims["iat"])
	nbf, ok2 := vInt(claims["nbf"])
	exp, ok3 := vInt(claims["exp"])
	verifapi.Assert("C16/time-claims-are-numbers", ok1 && ok2 && ok3)
	verifapi.Assert("C16/iat-is-issue-time", before <= iat && iat <= after)
	verifapi.Assert("C16/nbf-is-issue-time", nbf == iat)
	verifapi.Assert("C16/exp-is-ttl-later", exp == iat+int64(ttl/time.Second))
	if v, has := custom["x"]; has {
		if sv, isStr := v.(string); isStr {
			verifapi.Assert("C16/custom-claim-kept", claims["x"] == any(sv))
		}
	}
}

// VerifC16PublicOnly: the JWK published for a key store entry is built from the public half only.
func VerifC16PublicOnly() {
	type pubMarker struct{ id string }
	pub := &pubMarker{id: "public-half"}
	alg, size := keystore.AlgECDSA, 256
	switch verifapi.NondetChoice("key", 6) {
	case 1:
		size = 384
	case 2:
		size = 521
	case 3:
		alg, size = keystore.AlgRSA, 2048
	case 4:
		alg, size = keystore.AlgRSA, 3072
	case 5:
		alg, size = keystore.AlgRSA, 4096
	}
	e := &keystore.Entry{KeyID: verifapi.NondetStringN("kid", 2), Alg: alg, KeySize: size, PrivateKey: vOpaqueSigner{pub: pub}}
	jwk := e.JWK()
	verifapi.Cover("jwk-built")
	verifapi.Assert("C16/jwk-key-is-public-half", jwk.Key == any(pub))
	verifapi.Assert("C16/jwk-kid", jwk.KeyID == e.KeyID)
	verifapi.Assert("C16/jwk-use", jwk.Use == "sig")
	want := map[int]string{256: "ES256", 384: "ES384", 521: "ES512", 2048: "PS256", 3072: "PS384", 4096: "PS512"}[size]
	verifapi.Assert("C16/jwk-alg-of-key-type-and-size", jwk.Algorithm == want)
}
