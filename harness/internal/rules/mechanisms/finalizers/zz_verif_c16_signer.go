//go:build verif

package finalizers

import (
	"crypto"
	"io"
)

// vOpaqueSigner is a private key of which only the public half can be looked at.
type vOpaqueSigner struct{ pub crypto.PublicKey }

func (s vOpaqueSigner) Public() crypto.PublicKey { return s.pub }
func (s vOpaqueSigner) Sign(io.Reader, []byte, crypto.SignerOpts) ([]byte, error) {
	return nil, nil
}
