//go:build verif

package finalizers

import (
	"context"
	"crypto"
	"crypto/ecdsa"
	"crypto/elliptic"
	"crypto/rand"
	"crypto/x509"
	"encoding/pem"
	"errors"
	"os"
	"path/filepath"
	"strings"
	"time"

	"github.com/go-jose/go-jose/v4"
	"github.com/go-jose/go-jose/v4/jwt"
	"github.com/rs/zerolog"

	"github.com/dadrus/heimdall/internal/cache"
	"github.com/dadrus/heimdall/internal/heimdall"
	"github.com/dadrus/heimdall/internal/keystore"
	"github.com/dadrus/heimdall/internal/rules/mechanisms/subject"
	"github.com/dadrus/heimdall/internal/verifapi"
)

// VerifC16TokenAfterReload: the JWT finalizer caches created tokens. After a key store reload that puts
// a different key into effect — under a new key id or, as is usual for rotation, under the same one — the
// token handed out for the same subject still verifies against the key set published for its kid.

type vC16Cache struct{ entries map[string][]byte }

func (c *vC16Cache) Start(context.Context) error { return nil }
func (c *vC16Cache) Stop(context.Context) error  { return nil }
func (c *vC16Cache) Get(_ context.Context, key string) ([]byte, error) {
	if v, ok := c.entries[key]; ok {
		return v, nil
	}
	return nil, errors.New("no entry")
}

func (c *vC16Cache) Set(_ context.Context, key string, value []byte, _ time.Duration) error {
	c.entries[key] = value
	return nil
}

type vC16Ctx struct {
	app    context.Context
	header string
}

func (c *vC16Ctx) Request() *heimdall.Request              { return &heimdall.Request{Method: "GET"} }
func (c *vC16Ctx) AddHeaderForUpstream(_ string, v string) { c.header = v }
func (c *vC16Ctx) AddCookieForUpstream(string, string)     {}
func (c *vC16Ctx) AppContext() context.Context             { return c.app }
func (c *vC16Ctx) SetPipelineError(error)                  {}
func (c *vC16Ctx) Outputs() map[string]any                 { return map[string]any{} }

func VerifC16TokenAfterReload() {
	sameKid := verifapi.NondetBool("rotation.keeps-the-key-id")
	kids := []string{"signing-key", "signing-key"}
	if !sameKid {
		kids[1] = "signing-key-2"
	}
	private := []crypto.Signer{nil, nil}
	s := &jwtSigner{iss: "heimdall", path: "/keys/signer.pem"}
	writeStore := func(gen int) {}
	if verifapi.Symbolic() {
		writeStore = func(gen int) {
			private[gen] = vOpaqueSigner{pub: []string{"public-of-first-key", "public-of-second-key"}[gen]}
			keystore.VerifKeyStore = []*keystore.Entry{{KeyID: kids[gen], Alg: keystore.AlgECDSA, KeySize: 256, PrivateKey: private[gen]}}
			keystore.VerifKeyStoreErr = nil
		}
	} else {
		dir, err := os.MkdirTemp("", "verif-c16-")
		if err != nil {
			panic(err)
		}
		defer os.RemoveAll(dir)
		s.path = filepath.Join(dir, "signer.pem")
		writeStore = func(gen int) {
			key, _ := ecdsa.GenerateKey(elliptic.P256(), rand.Reader)
			private[gen] = key
			der, _ := x509.MarshalPKCS8PrivateKey(key)
			out := pem.EncodeToMemory(&pem.Block{Type: "PRIVATE KEY", Headers: map[string]string{"X-Key-ID": kids[gen]}, Bytes: der})
			if err := os.WriteFile(s.path, out, 0o600); err != nil {
				panic(err)
			}
		}
	}
	writeStore(0)
	if err := s.load(); err != nil {
		verifapi.Assert("C16/cached/initial-key-store-loads", false)
		return
	}
	f := &jwtFinalizer{id: "jwt", signer: s, ttl: 5 * time.Minute, headerName: "Authorization", headerScheme: "Bearer"}
	app := cache.WithContext(context.Background(), &vC16Cache{entries: map[string][]byte{}})
	sub := &subject.Subject{ID: "alice", Attributes: map[string]any{}}
	signedWith := map[string]any{} // engine: token text -> the private key handed to the (stubbed) signer
	issue := func() string {
		ctx := &vC16Ctx{app: app}
		VerifSignedKey = nil
		if err := f.Execute(ctx, sub); err != nil {
			verifapi.Assert("C16/cached/token-created", false)
		}
		tok := strings.TrimPrefix(ctx.header, "Bearer ")
		if verifapi.Symbolic() && VerifSignedKey != nil {
			signedWith[tok] = VerifSignedKey
		}
		return tok
	}
	verifies := func(tok string, gen int) bool {
		if verifapi.Symbolic() {
			return signedWith[tok] == any(private[gen])
		}
		parsed, err := jwt.ParseSigned(tok, []jose.SignatureAlgorithm{jose.ES256})
		if err != nil {
			return false
		}
		// against the key set published right now, by the kid the token names
		for _, k := range s.Keys() {
			if k.KeyID == parsed.Headers[0].KeyID {
				claims := map[string]any{}
				return parsed.Claims(k.Key, &claims) == nil
			}
		}
		return false
	}

	first := issue()
	verifapi.Cover("first-token")
	verifapi.Assert("C16/cached/first-token-verifies-with-the-active-key", verifies(first, 0))
	again := issue()
	verifapi.Assert("C16/cached/repeated-request-served-from-cache", again == first)

	writeStore(1) // rotation: another key becomes the only (active) one
	s.OnChanged(zerolog.Nop())
	verifapi.Assert("C16/cached/reload-takes-effect", s.jwk.KeyID == kids[1])
	second := issue()
	verifapi.Cover("token-after-reload")
	verifapi.Assert("C16/cached/token-after-reload-verifies-with-the-published-key", verifies(second, 1))
}
