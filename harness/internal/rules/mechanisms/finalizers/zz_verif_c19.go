//go:build verif

package finalizers

import (
	"crypto/ecdsa"
	"crypto/elliptic"
	"crypto/rand"
	"crypto/rsa"
	"crypto/x509"
	"encoding/pem"
	"fmt"
	"os"
	"path/filepath"

	"github.com/go-jose/go-jose/v4"
	"github.com/rs/zerolog"

	"github.com/dadrus/heimdall/internal/keystore"
	"github.com/dadrus/heimdall/internal/verifapi"
)

// VerifC19SignerReload: whatever the key store file contains when the watcher fires (empty, partially
// written, unsupported key sizes, missing key id), the reload callback of the JWT signer returns
// (it runs on a goroutine without recovery) and the previously loaded key stays in effect.
func VerifC19SignerReload() {
	type keyDesc struct {
		alg  string
		size int
		kid  string
	}
	shapes := [][]keyDesc{
		{},                                       // empty / truncated to nothing
		{{keystore.AlgECDSA, 256, "k1"}},         // fine
		{{keystore.AlgRSA, 1024, "k1"}},          // unsupported RSA size
		{{keystore.AlgECDSA, 224, "k1"}},         // unsupported curve
		{{keystore.AlgECDSA, 384, "k1"}, {keystore.AlgRSA, 2048, "k2"}},
		{{keystore.AlgECDSA, 256, "k1"}, {keystore.AlgRSA, 1024, "k2"}}, // second entry unsupported
	}
	shape := shapes[verifapi.NondetChoice("key_store", len(shapes))]
	keyID := []string{"", "k1", "k2", "missing"}[verifapi.NondetChoice("signer.key_id", 4)]

	s := &jwtSigner{path: "/keys/signer.pem", keyID: keyID, iss: "heimdall",
		jwk: jose.JSONWebKey{KeyID: "previous", Algorithm: "ES256"}, key: vOpaqueSigner{pub: "previous-public"}}
	if verifapi.Symbolic() {
		var entries []*keystore.Entry
		for _, k := range shape {
			entries = append(entries, &keystore.Entry{KeyID: k.kid, Alg: k.alg, KeySize: k.size, PrivateKey: vOpaqueSigner{pub: "public-" + k.kid}})
		}
		keystore.VerifKeyStore, keystore.VerifKeyStoreErr = entries, nil
	} else {
		dir, err := os.MkdirTemp("", "verif-c19-")
		if err != nil {
			panic(err)
		}
		defer os.RemoveAll(dir)
		s.path = filepath.Join(dir, "signer.pem")
		var out []byte
		for _, k := range shape {
			var der []byte
			switch {
			case k.alg == keystore.AlgRSA:
				key, _ := rsa.GenerateKey(rand.Reader, k.size)
				der, _ = x509.MarshalPKCS8PrivateKey(key)
			case k.size == 224:
				key, _ := ecdsa.GenerateKey(elliptic.P224(), rand.Reader)
				der, _ = x509.MarshalPKCS8PrivateKey(key)
			case k.size == 384:
				key, _ := ecdsa.GenerateKey(elliptic.P384(), rand.Reader)
				der, _ = x509.MarshalPKCS8PrivateKey(key)
			default:
				key, _ := ecdsa.GenerateKey(elliptic.P256(), rand.Reader)
				der, _ = x509.MarshalPKCS8PrivateKey(key)
			}
			out = append(out, pem.EncodeToMemory(&pem.Block{Type: "PRIVATE KEY", Headers: map[string]string{"X-Key-ID": k.kid}, Bytes: der})...)
		}
		os.WriteFile(s.path, out, 0o600)
	}

	crashed := ""
	func() {
		defer func() {
			if r := recover(); r != nil {
				crashed = fmt.Sprint(r)
			}
		}()
		s.OnChanged(zerolog.Nop())
	}()
	verifapi.Observe("crashed", crashed)
	if crashed != "" {
		verifapi.Cover("reload-panicked")
	}
	verifapi.Assert("C19/signer-reload-never-panics", crashed == "")

	// which key would a correct reload activate?
	usable := func(k keyDesc) bool {
		return (k.alg == keystore.AlgECDSA && (k.size == 256 || k.size == 384 || k.size == 521)) ||
			(k.alg == keystore.AlgRSA && (k.size == 2048 || k.size == 3072 || k.size == 4096))
	}
	allUsable := true
	for _, k := range shape {
		allUsable = allUsable && usable(k)
	}
	want := "previous"
	if allUsable {
		for i, k := range shape {
			if (keyID == "" && i == 0) || keyID == k.kid {
				want = k.kid
				break
			}
		}
	}
	if want == "previous" {
		verifapi.Cover("reload-rejected")
	} else {
		verifapi.Cover("reload-applied")
	}
	verifapi.Assert("C19/signer-keeps-previous-key-after-failed-reload", s.jwk.KeyID == want)
}
