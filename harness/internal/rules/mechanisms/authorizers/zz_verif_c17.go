//go:build verif

package authorizers

import (
	"errors"

	"github.com/dadrus/heimdall/internal/verifapi"
)

// C17: creating a rule specific variant of a mechanism (WithConfig) never writes to the prototype,
// to anything reachable from it, or to a variant created before. The prototype is in an ARBITRARY state
// (havoc) and the decoded override is ARBITRARY (the decoder is replaced by havoc of its target).

// vDecodeHook, when set by a harness, decodes instead of the arbitrary-value generator
var vDecodeHook func(output any) bool

func verifStub_decodeConfig(_ CreationContext, _ string, _, output any) error {
	if vDecodeHook != nil && vDecodeHook(output) {
		return nil
	}
	if vC17DecoderRejects {
		return errors.New("failed decoding config")
	}
	verifapi.Havoc("override", output)
	return nil
}

// overrides that the real decoder of the respective mechanism accepts (used natively, where the real
// decoder runs; in the engine the decoder is havoc and only the emptiness of the map matters)
var vC17Overrides = map[string]map[string]any{
	"remoteAuthorizer": map[string]any{"cache_ttl": "5s"},
	"celAuthorizer": map[string]any{"expressions": []any{map[string]any{"expression": "true"}}},
	"allowAuthorizer": map[string]any{"x": "y"},
	"denyAuthorizer": map[string]any{"x": "y"},
}

var vC17DecoderRejects bool

func VerifC17WithConfig() {
	var proto Authorizer
	label := ""
	switch verifapi.NondetChoice("mechanism", 4) {
	case 0:
		p := new(remoteAuthorizer)
		verifapi.Havoc("prototype", p)
		proto, label = p, "remoteAuthorizer"
	case 1:
		p := new(celAuthorizer)
		verifapi.Havoc("prototype", p)
		proto, label = p, "celAuthorizer"
	case 2:
		p := new(allowAuthorizer)
		verifapi.Havoc("prototype", p)
		proto, label = p, "allowAuthorizer"
	case 3:
		p := new(denyAuthorizer)
		verifapi.Havoc("prototype", p)
		proto, label = p, "denyAuthorizer"
	}
	verifapi.Observe("mechanism", label)
	snap := verifapi.Snapshot(proto)
	override := vC17Overrides[label]
	if vC17DecoderRejects = verifapi.NondetBool("override.rejected-by-decoder"); vC17DecoderRejects {
		override = map[string]any{"verif-unknown-option": 1} // natively: an option the real decoder rejects
	}
	if verifapi.NondetBool("override.empty") {
		override = nil
	}
	variant, err := proto.WithConfig(override)
	verifapi.Cover("variant-requested")
	verifapi.Assert("C17/prototype-unchanged-by-creating-a-variant", !verifapi.Changed(snap))
	if err != nil || variant == nil {
		verifapi.Cover("override-rejected")
		return
	}
	verifapi.Cover("variant-created")
	if any(variant) != any(proto) {
		verifapi.Cover("distinct-variant")
	}
	// a second rule creates its own variant: neither the prototype nor the first variant change
	snapVariant := verifapi.Snapshot(variant)
	vC17DecoderRejects = false
	_, _ = proto.WithConfig(vC17Overrides[label])
	verifapi.Assert("C17/prototype-unchanged-by-a-second-variant", !verifapi.Changed(snap))
	verifapi.Assert("C17/earlier-variant-unchanged-by-a-later-one", !verifapi.Changed(snapVariant))
	// and a variant of the variant (rule level override of an override) leaves both alone
	_, _ = variant.WithConfig(vC17Overrides[label])
	verifapi.Assert("C17/variant-unchanged-by-its-own-variant", !verifapi.Changed(snapVariant) && !verifapi.Changed(snap))
}
