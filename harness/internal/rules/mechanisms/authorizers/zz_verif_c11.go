//go:build verif

package authorizers

import (
	"time"

	"github.com/dadrus/heimdall/internal/rules/endpoint"
	"github.com/dadrus/heimdall/internal/rules/mechanisms/subject"
	"github.com/dadrus/heimdall/internal/verifapi"
)

func vC11Authorizer() *remoteAuthorizer {
	return &remoteAuthorizer{
		id: "authz",
		e: endpoint.Endpoint{URL: "http://authz.local/check", Method: "POST",
			Headers: map[string]string{"X-User": "{{ .Subject.ID }}", "X-Path": "{{ .Request.URL.Path }}"}},
		headersForUpstream: []string{"X-Granted"},
		ttl:                10 * time.Second,
	}
}

func vC11Reps() int {
	if verifapi.Symbolic() {
		return 2 // the engine explores every iteration order of every map range
	}
	return 64 // natively Go randomises the iteration start per range
}

// VerifC11RemoteAuthorizerKeyDeterministic: the same inputs always give the same key, whatever
// order Go iterates the maps in.
func VerifC11RemoteAuthorizerKeyDeterministic() {
	a := vC11Authorizer()
	sub := &subject.Subject{ID: verifapi.NondetStringN("sub.id", 2), Attributes: map[string]any{"role": verifapi.NondetStringN("sub.role", 1)}}
	values := map[string]string{"tenant": verifapi.NondetStringN("values.tenant", 2), "policy": verifapi.NondetStringN("values.policy", 2)}
	payload := verifapi.NondetStringN("payload", 2)

	first := a.calculateCacheKey(sub, values, payload)
	for i := 1; i < vC11Reps(); i++ {
		verifapi.Cover("recomputed")
		verifapi.Assert("C11/remote-authorizer/key-independent-of-map-iteration-order", a.calculateCacheKey(sub, values, payload) == first)
	}
}

// VerifC11RemoteAuthorizerKeyNoAliasing: two requests get the same key only if they agree in
// everything the result depends on (subject, rendered payload, rendered values).
func VerifC11RemoteAuthorizerKeyNoAliasing() {
	a := vC11Authorizer()
	mk := func(n string) (*subject.Subject, map[string]string, string) {
		sub := &subject.Subject{ID: verifapi.NondetStringN(n+".sub.id", 1), Attributes: map[string]any{"role": verifapi.NondetStringN(n+".sub.role", 1)}}
		values := map[string]string{"tenant": verifapi.NondetString(n+".values.tenant", 2), "policy": verifapi.NondetString(n+".values.policy", 2)}
		return sub, values, verifapi.NondetString(n+".payload", 2)
	}
	s1, v1, p1 := mk("a")
	s2, v2, p2 := mk("b")
	k1 := a.calculateCacheKey(s1, v1, p1)
	k2 := a.calculateCacheKey(s2, v2, p2)
	same := s1.ID == s2.ID && s1.Attributes["role"] == s2.Attributes["role"] && p1 == p2 &&
		v1["tenant"] == v2["tenant"] && v1["policy"] == v2["policy"]
	if same {
		verifapi.Cover("equal-requests")
		verifapi.Assert("C11/remote-authorizer/equal-requests-share-the-key", k1 == k2)
	} else {
		verifapi.Cover("different-requests")
		verifapi.Assert("C11/remote-authorizer/different-requests-never-share-a-key", k1 != k2)
	}
}
