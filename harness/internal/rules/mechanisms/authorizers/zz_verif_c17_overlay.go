//go:build verif

package authorizers

import (
	"time"

	"github.com/google/cel-go/cel"

	"github.com/dadrus/heimdall/internal/rules/endpoint"
	"github.com/dadrus/heimdall/internal/rules/mechanisms/cellib"
	"github.com/dadrus/heimdall/internal/verifapi"
)

// VerifC17RemoteAuthorizerOverlay: a rule level variant of the remote authorizer is the catalogue
// definition overlaid with exactly the options the rule gives: what the rule does not override —
// in particular the expressions that verify the endpoint's answer — is inherited, what it overrides
// replaces the catalogue value.
func VerifC17RemoteAuthorizerOverlay() {
	var env *cel.Env
	if !verifapi.Symbolic() {
		var err error
		if env, err = cel.NewEnv(cellib.Library()); err != nil {
			panic(err)
		}
	}
	protoExprs, err := compileExpressions([]Expression{{Value: "false"}}, env)
	if err != nil {
		panic(err)
	}
	proto := &remoteAuthorizer{id: "authz", e: endpoint.Endpoint{URL: "http://authz.verif/check", Method: "POST"}, celEnv: env,
		expressions: protoExprs, ttl: 10 * time.Second, headersForUpstream: []string{"X-Proto"}}

	overrideTTL := verifapi.NondetBool("override.cache_ttl")
	overrideHeaders := verifapi.NondetBool("override.forward_response_headers_to_upstream")
	overrideExprs := verifapi.NondetBool("override.expressions")
	config := map[string]any{"values": map[string]any{"tenant": "t"}} // the rule always overrides something
	if overrideTTL {
		config["cache_ttl"] = "30s"
	}
	if overrideHeaders {
		config["forward_response_headers_to_upstream"] = []any{"X-Rule"}
	}
	if overrideExprs {
		config["expressions"] = []any{map[string]any{"expression": "true"}}
	}
	// engine: stand-in of the decoder for exactly these options
	vDecodeHook = func(output any) bool {
		if overrideTTL {
			verifapi.SetField(output, "CacheTTL", 30*time.Second)
		}
		if overrideHeaders {
			verifapi.SetField(output, "ResponseHeadersToForward", []string{"X-Rule"})
		}
		if overrideExprs {
			verifapi.SetField(output, "Expressions", []Expression{{Value: "true"}})
		}
		return true
	}
	defer func() { vDecodeHook = nil }()

	v, err := proto.WithConfig(config)
	verifapi.Assert("C17/overlay/remote-authorizer/variant-created", err == nil && v != nil)
	variant := v.(*remoteAuthorizer)
	verifapi.Cover("variant-created")

	wantTTL := 10 * time.Second
	if overrideTTL {
		wantTTL = 30 * time.Second
	}
	verifapi.Assert("C17/overlay/remote-authorizer/cache_ttl-own-else-inherited", variant.ttl == wantTTL)
	wantHeader := "X-Proto"
	if overrideHeaders {
		wantHeader = "X-Rule"
	}
	verifapi.Assert("C17/overlay/remote-authorizer/response-headers-own-else-inherited",
		len(variant.headersForUpstream) == 1 && variant.headersForUpstream[0] == wantHeader)
	// the expressions: the prototype's deny everything ("false"), the rule's own allow ("true")
	evalErr := variant.expressions.eval(map[string]any{"Payload": nil}, variant)
	verifapi.Assert("C17/overlay/remote-authorizer/expressions-own-else-inherited",
		len(variant.expressions) == 1 && (evalErr == nil) == overrideExprs)
	verifapi.Assert("C17/overlay/remote-authorizer/endpoint-and-id-inherited", variant.id == "authz" && variant.e.URL == proto.e.URL)
	verifapi.Assert("C17/overlay/remote-authorizer/prototype-keeps-its-settings",
		proto.ttl == 10*time.Second && len(proto.expressions) == 1 && proto.headersForUpstream[0] == "X-Proto")
}
