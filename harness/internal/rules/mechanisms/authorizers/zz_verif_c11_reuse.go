//go:build verif

package authorizers

import (
	"context"
	"errors"
	"net/http"
	"net/http/httptest"
	"time"

	"github.com/google/cel-go/cel"

	"github.com/dadrus/heimdall/internal/cache"
	"github.com/dadrus/heimdall/internal/heimdall"
	"github.com/dadrus/heimdall/internal/rules/endpoint"
	"github.com/dadrus/heimdall/internal/rules/mechanisms/cellib"
	"github.com/dadrus/heimdall/internal/rules/mechanisms/subject"
	"github.com/dadrus/heimdall/internal/verifapi"
)

// ---------------------------------------------------------------------------
// C11 (reuse skeleton of the remote authorizer): two rules use the same remote authorizer, each with
// its own `expressions` over the response of the authorization endpoint, against one cache. Whether a
// request is authorized depends only on the endpoint's answer and on the expressions of the rule that
// handles it — not on which rule has filled the cache before.
// ---------------------------------------------------------------------------

type vC11Cache struct {
	entries map[string][]byte
	sets    int
	hits    int
}

func (c *vC11Cache) Start(context.Context) error { return nil }
func (c *vC11Cache) Stop(context.Context) error  { return nil }
func (c *vC11Cache) Get(_ context.Context, key string) ([]byte, error) {
	if v, ok := c.entries[key]; ok {
		c.hits++
		return v, nil
	}
	return nil, errors.New("no entry")
}

func (c *vC11Cache) Set(_ context.Context, key string, value []byte, _ time.Duration) error {
	c.sets++
	c.entries[key] = value
	return nil
}

type vC11Ctx struct {
	app     context.Context
	outputs map[string]any
}

func (c *vC11Ctx) Request() *heimdall.Request          { return &heimdall.Request{Method: "GET"} }
func (c *vC11Ctx) AddHeaderForUpstream(string, string) {}
func (c *vC11Ctx) AddCookieForUpstream(string, string) {}
func (c *vC11Ctx) AppContext() context.Context         { return c.app }
func (c *vC11Ctx) SetPipelineError(error)              {}
func (c *vC11Ctx) Outputs() map[string]any             { return c.outputs }

var (
	vC11EndpointStatus int
	vC11EndpointCalls  int
)

// engine: the remote end behind the (cut) HTTP client
func VerifRoundTrip(*http.Request) (*http.Response, error) {
	vC11EndpointCalls++
	return &http.Response{StatusCode: vC11EndpointStatus, Header: http.Header{}, Body: http.NoBody, ContentLength: 0}, nil
}

func VerifC11RemoteAuthorizerReuse() {
	vC11EndpointCalls = 0
	vC11EndpointStatus = []int{http.StatusOK, http.StatusForbidden}[verifapi.NondetChoice("endpoint.answer", 2)]
	firstStrict := verifapi.NondetBool("first-rule.expression-fails")
	secondStrict := verifapi.NondetBool("second-rule.expression-fails")

	ep := endpoint.Endpoint{URL: "http://authz.verif/check", Method: http.MethodPost}
	var env *cel.Env
	if !verifapi.Symbolic() {
		srv := httptest.NewServer(http.HandlerFunc(func(rw http.ResponseWriter, _ *http.Request) {
			vC11EndpointCalls++
			rw.WriteHeader(vC11EndpointStatus)
		}))
		defer srv.Close()
		ep.URL = srv.URL
		var err error
		if env, err = cel.NewEnv(cellib.Library()); err != nil {
			panic(err)
		}
	}
	mk := func(strict bool) *remoteAuthorizer {
		text := "true"
		if strict {
			text = "false"
		}
		exprs, err := compileExpressions([]Expression{{Value: text}}, env)
		if err != nil {
			panic(err)
		}
		// what WithConfig yields for a rule level `expressions` override: everything else is shared
		return &remoteAuthorizer{id: "authz", e: ep, ttl: 30 * time.Second, expressions: exprs, celEnv: env}
	}
	first, second := mk(firstStrict), mk(secondStrict)
	cch := &vC11Cache{entries: map[string][]byte{}}
	ctx := &vC11Ctx{app: cache.WithContext(context.Background(), cch), outputs: map[string]any{}}
	sub := &subject.Subject{ID: "alice", Attributes: map[string]any{}}

	granted := vC11EndpointStatus == http.StatusOK
	// (the compiled CEL programs are not walked: natively they reach the whole CEL environment)
	snapshot := func(a *remoteAuthorizer) []int {
		return []int{verifapi.Snapshot(&a.e), verifapi.Snapshot(&a.ttl), verifapi.Snapshot(&a.headersForUpstream), verifapi.Snapshot(&a.v), verifapi.Snapshot(&a.id)}
	}
	unchanged := func(a *remoteAuthorizer, snaps []int, exprs compiledExpressions) bool {
		ok := len(a.expressions) == len(exprs)
		for i := 0; ok && i < len(exprs); i++ {
			ok = a.expressions[i] == exprs[i]
		}
		for _, sn := range snaps {
			ok = ok && !verifapi.Changed(sn)
		}
		return ok
	}
	snap1, snap2 := snapshot(first), snapshot(second)
	exprs1, exprs2 := append(compiledExpressions(nil), first.expressions...), append(compiledExpressions(nil), second.expressions...)
	err1 := first.Execute(ctx, sub)
	verifapi.Cover("first-rule")
	verifapi.Assert("C11/remote-authorizer/first-rule-decides-by-answer-and-own-expressions", (err1 == nil) == (granted && !firstStrict))

	err2 := second.Execute(ctx, sub)
	verifapi.Cover("second-rule")
	verifapi.Assert("C11/remote-authorizer/second-rule-decides-by-answer-and-own-expressions", (err2 == nil) == (granted && !secondStrict))

	err3 := first.Execute(ctx, sub)
	verifapi.Assert("C11/remote-authorizer/first-rule-again-same-decision", (err3 == nil) == (err1 == nil))
	// C17: executing the authorizers does not write to them
	verifapi.Assert("C17/execute/remote-authorizer-unchanged-by-requests", unchanged(first, snap1, exprs1) && unchanged(second, snap2, exprs2))
	if cch.hits > 0 {
		verifapi.Cover("served-from-cache")
	}
}
