//go:build verif

package cellib

import (
	"context"
	"errors"
	"strings"

	"github.com/google/cel-go/cel"
	"github.com/google/cel-go/common/types"
	"github.com/google/cel-go/common/types/ref"

	"github.com/dadrus/heimdall/internal/verifapi"
)

// Engine-only stand-in of the CEL compiler and evaluator (cel-go is outside the encoding): an
// expression "compiles" to a program that interprets the canonical harness texts — `true`, `false`,
// and a text reading a missing map key (an evaluation error) — and is nondeterministic (true / false /
// evaluation error) for every other text. heimdall's own CompiledExpression.Eval runs for real on top.
type verifProgram struct{ text string }

func (p verifProgram) Eval(any) (ref.Val, *cel.EvalDetails, error) {
	outcome := 0
	switch {
	case p.text == "true":
		outcome = 0
	case p.text == "false":
		outcome = 1
	case strings.Contains(p.text, "verif-no-such-key"):
		outcome = 2
	default:
		outcome = verifapi.NondetChoice("cel:"+p.text, 3)
	}
	switch outcome {
	case 0:
		return types.Bool(true), nil, nil
	case 1:
		return types.Bool(false), nil, nil
	}
	return nil, nil, errors.New("no such key: verif-no-such-key")
}

func (p verifProgram) ContextEval(_ context.Context, v any) (ref.Val, *cel.EvalDetails, error) {
	return p.Eval(v)
}

func verifStub_CompileExpression(_ *cel.Env, expr, errMsg string) (*CompiledExpression, error) {
	return &CompiledExpression{msg: errMsg, p: verifProgram{text: expr}}, nil
}
