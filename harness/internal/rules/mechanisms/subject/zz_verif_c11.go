//go:build verif

package subject

import (
	"bytes"

	"github.com/dadrus/heimdall/internal/verifapi"
)

// VerifC11SubjectHashInjective: Subject.Hash (part of the cache keys of authorizers, contextualizers
// and finalizers) separates subjects that differ in id, attribute values, element boundaries of list
// attributes, or the type of an attribute value.
func VerifC11SubjectHashInjective() {
	var a, b *Subject
	equal := false
	switch verifapi.NondetChoice("shape", 4) {
	case 0: // ids / plain attribute
		a = &Subject{ID: verifapi.NondetString("a.id", 2), Attributes: map[string]any{"role": verifapi.NondetString("a.role", 2)}}
		b = &Subject{ID: verifapi.NondetString("b.id", 2), Attributes: map[string]any{"role": verifapi.NondetString("b.role", 2)}}
		equal = a.ID == b.ID && a.Attributes["role"] == b.Attributes["role"]
	case 1: // one element vs two elements of a list attribute
		x := verifapi.NondetStringN("a.group", 3)
		y, z := verifapi.NondetStringN("b.group0", 1), verifapi.NondetStringN("b.group1", 1)
		a = &Subject{ID: "u", Attributes: map[string]any{"groups": []any{x}}}
		b = &Subject{ID: "u", Attributes: map[string]any{"groups": []any{y, z}}}
	case 2: // string vs number
		s := verifapi.NondetStringN("a.level", 1)
		n := verifapi.NondetIntRange("b.level", 0, 9)
		a = &Subject{ID: "u", Attributes: map[string]any{"level": s}}
		b = &Subject{ID: "u", Attributes: map[string]any{"level": n}}
	default: // attribute moved between keys
		v := verifapi.NondetStringN("value", 1)
		a = &Subject{ID: "u", Attributes: map[string]any{"a": v, "b": ""}}
		b = &Subject{ID: "u", Attributes: map[string]any{"a": "", "b": v}}
	}
	ha, hb := a.Hash(), b.Hash()
	if equal {
		verifapi.Cover("equal-subjects")
		verifapi.Assert("C11/subject/equal-subjects-equal-hash", bytes.Equal(ha, hb))
	} else {
		verifapi.Cover("different-subjects")
		verifapi.Assert("C11/subject/different-subjects-different-hash", !bytes.Equal(ha, hb))
	}
}
