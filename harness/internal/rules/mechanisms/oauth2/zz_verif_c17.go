//go:build verif

package oauth2

import (
	"context"

	"github.com/dadrus/heimdall/internal/rules/endpoint"
	"github.com/dadrus/heimdall/internal/verifapi"
)

// VerifC17MetadataEndpoint: resolving the server metadata (done on every request by the jwt and
// introspection authenticators using metadata discovery) does not write to the shared endpoint definition.
func VerifC17MetadataEndpoint() {
	e := &MetadataEndpoint{Endpoint: endpoint.Endpoint{URL: "http://127.0.0.1:1/.well-known/openid-configuration"}}
	switch verifapi.NondetChoice("configured", 4) {
	case 1:
		e.Method = "GET"
	case 2:
		e.Headers = map[string]string{"X-Custom": "v"}
	case 3:
		e.Method, e.Headers = "GET", map[string]string{"Accept": "application/json"}
		e.HTTPCache = &endpoint.HTTPCache{Enabled: false}
	}
	snap := verifapi.Snapshot(e)
	_, _ = e.Get(context.Background(), map[string]any{"TokenIssuer": "x"}) // the remote call itself fails: nobody listens
	verifapi.Cover("metadata-requested")
	verifapi.Assert("C17/metadata-endpoint/definition-unchanged-by-use", !verifapi.Changed(snap))
}
