//go:build verif

package oauth2

import (
	"fmt"

	"github.com/dadrus/heimdall/internal/verifapi"
)

// VerifC19ScopesMatcherConfig: the `scopes` assertion of a jwt / introspection authenticator can be
// overridden per rule, i.e. it arrives with every (re)loaded rule set. Whatever YAML-decodable value it
// carries — a list with non-string elements, a map whose `values` is not a list or whose
// `matching_strategy` is not a string, a map with a non-string key — decoding it yields a matcher or an
// error; it never panics (rule sets are loaded on provider goroutines without recovery).
func VerifC19ScopesMatcherConfig() {
	values := []any{[]any{"a", "b"}, []any{"a", 1}, []any{}, "a b", 5, nil, map[string]any{"k": "v"}}
	strategies := []any{"exact", "wildcard", "hierarchic", "unknown", 5, nil, []any{"exact"}}
	var data any
	asList := false
	switch verifapi.NondetChoice("shape", 4) {
	case 0: // the short form: a list
		asList = true
		data = values[verifapi.NondetChoice("list", 3)]
	case 1: // a map with string keys
		m := map[string]any{}
		if s := verifapi.NondetChoice("matching_strategy", len(strategies)+1); s > 0 {
			m["matching_strategy"] = strategies[s-1]
		}
		if v := verifapi.NondetChoice("values", len(values)+1); v > 0 {
			m["values"] = values[v-1]
		}
		data = m
	case 2: // what yaml.v3 produces for a mapping with a non-string key
		data = map[any]any{"values": []any{"a"}, 404: "x"}
	default:
		data = map[any]any{"matching_strategy": "exact", "values": values[verifapi.NondetChoice("values", len(values))]}
	}
	crashed := ""
	var matcher ScopesMatcher
	var err error
	func() {
		defer func() {
			if r := recover(); r != nil {
				crashed = fmt.Sprint(r)
			}
		}()
		if asList {
			matcher, err = createMatcherFromValues(func(scopes []string) (ScopesMatcher, error) { return ExactScopeStrategyMatcher(scopes), nil }, data)
		} else {
			matcher, err = decodeMatcherFromMap(data)
		}
	}()
	verifapi.Cover("decoded")
	verifapi.Observe("crashed", crashed)
	verifapi.Assert("C19/scopes-matcher/type-confused-configuration-never-panics", crashed == "")
	verifapi.Assert("C19/scopes-matcher/matcher-or-error", crashed != "" || (err == nil) == (matcher != nil))
}
