//go:build verif

package oauth2

import (
	"strings"

	"github.com/dadrus/heimdall/internal/verifapi"
)

// vWildcardGrants is the meaning of a granted scope (possibly carrying wildcards) for a required scope:
// segment-wise equality, `*` standing for one non-empty segment, and a trailing `*` of a shorter
// pattern standing for the non-empty rest. A pattern without wildcard grants exactly itself.
func vWildcardGrants(granted, required string) bool {
	ps, ns := strings.Split(granted, "."), strings.Split(required, ".")
	if len(ps) > len(ns) {
		return false
	}
	for i, p := range ps {
		if i == len(ps)-1 && len(ps) < len(ns) {
			return p == "*" && len(ns[i]) > 0
		}
		if p == "*" {
			if len(ns[i]) == 0 {
				return false
			}
			continue
		}
		if p != ns[i] {
			return false
		}
	}
	return true
}

// VerifC05WildcardScopes: the wildcard scope matcher accepts a token's scopes exactly if every required
// scope is granted by one of them.
func VerifC05WildcardScopes() {
	seg := func(n string) string {
		if verifapi.NondetBool(n + ".wildcard") {
			return "*"
		}
		return string([]byte{verifapi.NondetByteRange(n, 'a', 'c')})
	}
	// the required scope: two or three single-letter segments
	required := seg0("r0") + "." + seg0("r1")
	if verifapi.NondetBool("required.three_segments") {
		required += "." + seg0("r2")
	}
	// the token carries one or two scopes of one to three segments, each segment a letter or `*`
	mk := func(n string) string {
		s := seg(n + ".0")
		for i, more := 1, verifapi.NondetChoice(n+".segments", 3); i <= more; i++ {
			s += "." + seg(n+"."+string(rune('0'+i)))
		}
		return s
	}
	granted := []string{mk("g0")}
	if verifapi.NondetBool("token.two_scopes") {
		granted = append(granted, mk("g1"))
	}
	err := WildcardScopeStrategyMatcher{required}.Match(granted)
	want := false
	for _, g := range granted {
		if vWildcardGrants(g, required) {
			want = true
		}
	}
	if want {
		verifapi.Cover("granted")
	} else {
		verifapi.Cover("not-granted")
	}
	verifapi.Assert("C05/wildcard-scope-matched-iff-granted", (err == nil) == want)
}

func seg0(n string) string { return string([]byte{verifapi.NondetByteRange(n, 'a', 'c')}) }
