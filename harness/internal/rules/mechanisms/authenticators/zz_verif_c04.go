//go:build verif

package authenticators

import (
	"context"
	"crypto/sha256"
	"encoding/hex"
	"encoding/json"
	"net/http"
	"net/http/httptest"
	"time"

	"github.com/go-jose/go-jose/v4"
	"github.com/go-jose/go-jose/v4/jwt"

	"github.com/dadrus/heimdall/internal/rules/endpoint"
	"github.com/dadrus/heimdall/internal/rules/mechanisms/authenticators/extractors"
	"github.com/dadrus/heimdall/internal/rules/mechanisms/oauth2"
	"github.com/dadrus/heimdall/internal/rules/mechanisms/subject"
	"github.com/dadrus/heimdall/internal/verifapi"
)

// ---------------------------------------------------------------------------
// C04 builders: real authenticators for the chain harness in package rules.
// ---------------------------------------------------------------------------

// published for the engine's stubs of jwt.ParseSigned and jwtAuthenticator.fetchJWKS
var (
	VerifJWTParseOK bool
	VerifJWTHeader  jose.Header
	VerifJWKS       *jose.JSONWebKeySet
	VerifJWKSErr    error
)

func vSHA(s string) string {
	md := sha256.New()
	md.Write([]byte(s))
	return hex.EncodeToString(md.Sum(nil))
}

func VerifNewBasicAuth(user, password string, fallback bool) Authenticator {
	return &basicAuthAuthenticator{id: "basic", userID: vSHA(user), password: vSHA(password), allowFallbackOnError: fallback}
}

func VerifNewAnonymous(subject string) Authenticator {
	return &anonymousAuthenticator{id: "anon", Subject: subject}
}

func VerifNewUnauthorized() Authenticator { return newUnauthorizedAuthenticator("deny") }

type vSubjectFactory struct{ id string }

func (f vSubjectFactory) CreateSubject([]byte) (*subject.Subject, error) {
	return &subject.Subject{ID: f.id, Attributes: map[string]any{}}, nil
}

type vMetadataResolver struct{ md oauth2.ServerMetadata }

func (r vMetadataResolver) Get(context.Context, map[string]any) (oauth2.ServerMetadata, error) {
	return r.md, nil
}

var vC04NativeURL, vC04NativeToken string

// VerifJWTSetup describes the token presented (if any) and the key set of the issuer.
type VerifJWTSetup struct {
	Parsable     bool // the bearer value is a well-formed JWS
	SigValid     bool // signed with the key published under its kid
	TrustedIssue bool // iss is the trusted issuer
	JWKSFails    bool // the key-set endpoint cannot be reached
	Alg          string // signature algorithm of the token and its key ("" = ES256)
}

// VerifNewJWT builds a real jwt authenticator reading `Authorization: Bearer`. It returns the authenticator,
// the bearer value to present and a cleanup function (native test server).
func VerifNewJWT(s VerifJWTSetup, fallback bool) (Authenticator, string, func()) {
	const issuer = "https://trusted.example"
	alg := s.Alg
	if alg == "" {
		alg = "ES256"
	}
	iss := issuer
	if !s.TrustedIssue {
		iss = "https://evil.example"
	}
	claims := oauth2.Claims{Issuer: iss, Subject: "alice"}
	a := &jwtAuthenticator{id: "jwt", sf: vSubjectFactory{id: "jwt-subject"}, allowFallbackOnError: fallback,
		ads: extractors.HeaderValueExtractStrategy{Name: "Authorization", Scheme: "Bearer"},
		a: oauth2.Expectation{TrustedIssuers: []string{issuer}, ScopesMatcher: oauth2.NoopMatcher{},
			AllowedAlgorithms: defaultAllowedAlgorithms()}}
	var zero time.Duration // caching disabled
	a.ttl = &zero
	if verifapi.Symbolic() {
		VerifJWTParseOK = s.Parsable
		VerifJWTHeader = jose.Header{Algorithm: alg, KeyID: "k1"}
		VerifJWTSigValid = map[string]bool{"k1": s.SigValid}
		VerifJWTClaims, VerifJWTMapClaims = claims, map[string]any{"iss": iss, "sub": "alice"}
		VerifJWKS = &jose.JSONWebKeySet{Keys: []jose.JSONWebKey{{KeyID: "k1", Algorithm: alg}}}
		VerifJWKSErr = nil
		a.r = vMetadataResolver{md: oauth2.ServerMetadata{Issuer: issuer, JWKSEndpoint: &endpoint.Endpoint{URL: "http://jwks.verif/keys", Method: "GET"}}}
		if s.JWKSFails {
			VerifJWKS, VerifJWKSErr = nil, a.vCommunicationError()
		}
		if !s.Parsable {
			return a, "not-a-jws", func() {}
		}
		return a, "jws.payload.signature", func() {}
	}
	// natively: a really signed token and a key-set server (shared by all jwt authenticators of one chain,
	// like the engine's stand-ins are)
	if vC04NativeURL != "" {
		a.r = vMetadataResolver{md: oauth2.ServerMetadata{Issuer: issuer, JWKSEndpoint: &endpoint.Endpoint{URL: vC04NativeURL, Method: "GET"}}}
		return a, vC04NativeToken, func() {}
	}
	signing, public := vC05NativeKey(alg)
	published := public
	if !s.SigValid {
		_, published = vC05NativeKey(alg)
	}
	signer, err := jose.NewSigner(jose.SigningKey{Algorithm: jose.SignatureAlgorithm(alg), Key: signing}, (&jose.SignerOptions{}).WithType("JWT").WithHeader("kid", "k1"))
	if err != nil {
		panic(err)
	}
	raw, err := jwt.Signed(signer).Claims(claims).Serialize()
	if err != nil {
		panic(err)
	}
	srv := httptest.NewServer(http.HandlerFunc(func(rw http.ResponseWriter, _ *http.Request) {
		rw.Header().Set("Content-Type", "application/json")
		json.NewEncoder(rw).Encode(jose.JSONWebKeySet{Keys: []jose.JSONWebKey{{KeyID: "k1", Algorithm: alg, Key: published, Use: "sig"}}})
	}))
	url := srv.URL
	if s.JWKSFails {
		srv.Close()
	}
	a.r = vMetadataResolver{md: oauth2.ServerMetadata{Issuer: issuer, JWKSEndpoint: &endpoint.Endpoint{URL: url, Method: "GET"}}}
	vC04NativeURL, vC04NativeToken = url, raw
	if !s.Parsable {
		vC04NativeToken = "not-a-jws"
	}
	return a, vC04NativeToken, func() { vC04NativeURL = ""; srv.Close() }
}

// vCommunicationError builds the error the real fetchJWKS returns when the endpoint cannot be reached.
func (a *jwtAuthenticator) vCommunicationError() error {
	_, err := a.readJWKS(&http.Response{StatusCode: http.StatusBadGateway})
	return err
}
