//go:build verif

package authenticators

import (
	"time"

	"github.com/dadrus/heimdall/internal/rules/mechanisms/oauth2"
	"github.com/dadrus/heimdall/internal/verifapi"
)

// VerifC17AssertionsOverlay: a rule level variant of the jwt and the oauth2_introspection authenticator
// observes the catalogue's assertions overlaid with exactly the assertions the rule gives: an assertion the
// rule does not mention (the required scopes, the audience, the trusted issuers, the leeway) is inherited,
// one it gives replaces the catalogue's.
func VerifC17AssertionsOverlay() {
	protoAssertions := oauth2.Expectation{TrustedIssuers: []string{"https://idp.example"}, Audiences: []string{"svc-a"},
		ScopesMatcher: oauth2.ExactScopeStrategyMatcher{"admin"}, ValidityLeeway: 5 * time.Second,
		AllowedAlgorithms: []string{"ES256"}}
	overrideAudience := verifapi.NondetBool("override.assertions.audience")
	overrideScopes := verifapi.NondetBool("override.assertions.scopes")
	overrideTTL := verifapi.NondetBool("override.cache_ttl")

	override := oauth2.Expectation{}
	assertions := map[string]any{}
	if overrideAudience {
		override.Audiences = []string{"svc-b"}
		assertions["audience"] = []any{"svc-b"}
	}
	if overrideScopes {
		override.ScopesMatcher = oauth2.ExactScopeStrategyMatcher{"read"}
		assertions["scopes"] = []any{"read"}
	}
	config := map[string]any{}
	if len(assertions) != 0 {
		config["assertions"] = assertions
	}
	if overrideTTL || len(config) == 0 {
		config["cache_ttl"] = "30s" // the rule always overrides something
		overrideTTL = true
	}
	// engine: stand-in of the decoder for exactly these options
	vDecodeHook = func(output any) bool {
		verifapi.SetField(output, "Assertions", override)
		if overrideTTL {
			d := 30 * time.Second
			verifapi.SetField(output, "CacheTTL", &d)
		}
		return true
	}
	defer func() { vDecodeHook = nil }()

	var proto Authenticator
	jwtKind := verifapi.NondetChoice("mechanism", 2) == 0
	if jwtKind {
		proto = &jwtAuthenticator{id: "jwt", a: protoAssertions}
	} else {
		proto = &oauth2IntrospectionAuthenticator{id: "introspection", a: protoAssertions}
	}
	v, err := proto.WithConfig(config)
	verifapi.Assert("C17/overlay/assertions/variant-created", err == nil && v != nil)
	verifapi.Cover("variant-created")
	var got oauth2.Expectation
	if jwtKind {
		got = v.(*jwtAuthenticator).a
	} else {
		got = v.(*oauth2IntrospectionAuthenticator).a
	}

	wantAudience, wantScope := "svc-a", "admin"
	if overrideAudience {
		wantAudience = "svc-b"
	}
	if overrideScopes {
		wantScope = "read"
	}
	verifapi.Assert("C17/overlay/assertions/audience-own-else-inherited", len(got.Audiences) == 1 && got.Audiences[0] == wantAudience)
	verifapi.Assert("C17/overlay/assertions/required-scopes-own-else-inherited",
		got.ScopesMatcher != nil && got.ScopesMatcher.Match([]string{wantScope}) == nil && got.ScopesMatcher.Match([]string{"other"}) != nil)
	verifapi.Assert("C17/overlay/assertions/issuers-leeway-algorithms-inherited",
		len(got.TrustedIssuers) == 1 && got.TrustedIssuers[0] == "https://idp.example" && got.ValidityLeeway == 5*time.Second &&
			len(got.AllowedAlgorithms) == 1 && got.AllowedAlgorithms[0] == "ES256")
}
