//go:build verif

package authenticators

import (
	"crypto/x509"
	"time"

	"github.com/go-jose/go-jose/v4"

	"github.com/dadrus/heimdall/internal/rules/mechanisms/oauth2"
	"github.com/dadrus/heimdall/internal/verifapi"
)

const verifSecond = int64(time.Second)

// verifConfiguredTTL returns an arbitrary configured cache TTL: unset, or any
// duration (negative, zero, positive) of magnitude < 2^61 ns.
func verifConfiguredTTL() *time.Duration {
	if !verifapi.NondetBool("ttl.set") {
		return nil
	}
	d := time.Duration(verifapi.NondetInt("ttl"))
	verifapi.Assume(d > -(1<<61) && d < 1<<61)
	return &d
}

var verifLeeways = []time.Duration{0, time.Second, 5 * time.Second, time.Minute}

func verifLeeway() (configured time.Duration, effectiveSeconds int64) {
	l := verifLeeways[verifapi.NondetChoice("validity_leeway", len(verifLeeways))]
	if l == 0 {
		return l, 10 // documented default
	}
	return l, int64(l / time.Second)
}

// VerifC10IntrospectionTTL: an introspection response accepted by the real
// validity check is never cached beyond exp + validity leeway; a configured
// TTL can only shorten; TTL <= 0 disables caching.
func VerifC10IntrospectionTTL() {
	now0 := verifapi.Now().Unix()
	ttl := verifConfiguredTTL()
	leeway, leewaySec := verifLeeway()
	hasExp := verifapi.NondetBool("exp.present")
	exp := now0 + verifapi.NondetIntRange("exp.delta", -(1 << 31), 1<<31)

	resp := &oauth2.IntrospectionResponse{Active: true}
	if hasExp {
		nd := oauth2.NumericDate(exp)
		resp.Expiry = &nd
	}
	// only credentials the real check accepts reach the TTL computation
	if err := (oauth2.Expectation{ValidityLeeway: leeway}).AssertValidity(resp.NotBefore.Time(), resp.Expiry.Time()); err != nil {
		verifapi.Cover("rejected-by-validity-check")
		return
	}
	verifapi.AdvanceClock("validation-to-caching", 3600)
	now := verifapi.Now().Unix()
	a := &oauth2IntrospectionAuthenticator{ttl: ttl}
	got := a.getCacheTTL(resp)

	verifC10Common("introspection", ttl, got)
	if hasExp && got > 0 {
		verifapi.Cover("cached-with-expiry")
		verifapi.Region("KF-C10-introspection-ttl-inside-leeway", ttl != nil && exp-now-10 <= 0)
		verifapi.Assert("C10/introspection/not-beyond-expiry-plus-leeway", int64(got) <= (exp+leewaySec-now)*verifSecond)
	}
	if !hasExp && ttl == nil {
		verifapi.Assert("C10/introspection/no-lifetime-no-caching", got == 0)
	}
}

func verifC10Common(name string, ttl *time.Duration, got time.Duration) {
	verifapi.Assert("C10/"+name+"/ttl-never-negative", got >= 0)
	if ttl != nil {
		if *ttl <= 0 {
			verifapi.Cover("ttl-zero-or-negative")
			verifapi.Assert("C10/"+name+"/zero-ttl-disables-caching", got == 0)
		} else {
			verifapi.Cover("ttl-positive")
			verifapi.Assert("C10/"+name+"/configured-ttl-only-shortens", got <= *ttl)
		}
	} else {
		verifapi.Cover("ttl-unset")
	}
}

// VerifC10JWTKeyTTL: a verification key is never cached past its certificate's expiry.
func VerifC10JWTKeyTTL() {
	now := verifapi.Now().Unix()
	ttl := verifConfiguredTTL()
	hasCert := verifapi.NondetBool("cert.present")
	notAfter := now + verifapi.NondetIntRange("notAfter.delta", -(1 << 31), 1<<31)

	key := &jose.JSONWebKey{KeyID: "k"}
	if hasCert {
		key.Certificates = []*x509.Certificate{{NotAfter: time.Unix(notAfter, 0)}}
		// a certificate that is already expired is rejected before (pkix validation)
		verifapi.Assume(notAfter > now)
	}
	a := &jwtAuthenticator{ttl: ttl}
	got := a.getCacheTTL(key)

	verifC10Common("jwt-key", ttl, got)
	if hasCert && got > 0 {
		verifapi.Cover("cached-with-certificate")
		verifapi.Region("KF-C10-jwt-key-ttl-inside-leeway", notAfter-now-10 <= 0)
		verifapi.Assert("C10/jwt-key/not-beyond-certificate-expiry", int64(got) <= (notAfter-now)*verifSecond)
	}
	if !hasCert && ttl == nil {
		verifapi.Assert("C10/jwt-key/default-ttl", got == defaultJWTAuthenticatorTTL)
	}
}

// VerifC10GenericTTL: a session accepted by the real lifespan check is never
// cached beyond its expiry + leeway; caching needs a positive configured TTL.
func VerifC10GenericTTL() {
	now0 := verifapi.Now().Unix()
	ttl := time.Duration(verifapi.NondetInt("ttl"))
	verifapi.Assume(ttl > -(1<<61) && ttl < 1<<61)
	leeway, leewaySec := verifLeeway()
	hasSession := verifapi.NondetBool("session.present")
	hasExp := verifapi.NondetBool("exp.present")
	exp := now0 + verifapi.NondetIntRange("exp.delta", -(1 << 31), 1<<31)

	var sl *SessionLifespan
	if hasSession {
		sl = &SessionLifespan{active: true, leeway: leeway}
		if hasExp {
			sl.exp = time.Unix(exp, 0)
		}
		if err := sl.Assert(); err != nil {
			verifapi.Cover("rejected-by-validity-check")
			return
		}
	}
	verifapi.AdvanceClock("validation-to-caching", 3600)
	now := verifapi.Now().Unix()
	a := &genericAuthenticator{ttl: ttl}
	got := a.getCacheTTL(sl)

	verifC10Common("generic", &ttl, got)
	if hasSession && hasExp && got > 0 {
		verifapi.Cover("cached-with-expiry")
		verifapi.Assert("C10/generic/not-beyond-expiry-plus-leeway", int64(got) <= (exp+leewaySec-now)*verifSecond)
	}
}
