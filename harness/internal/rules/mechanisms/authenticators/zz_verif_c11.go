//go:build verif

package authenticators

import (
	"github.com/dadrus/heimdall/internal/rules/endpoint"
	"github.com/dadrus/heimdall/internal/verifapi"
)

// VerifC11AuthenticatorKeysNoAliasing: the cache keys of the jwt (JWKS url + key id), introspection
// (introspection url + token) and generic (session reference) authenticators are equal only for equal
// (url, reference) pairs: no pair is confused with one shifted across the component boundary.
func VerifC11AuthenticatorKeysNoAliasing() {
	ep := &endpoint.Endpoint{URL: "https://idp.local/{{ .Issuer }}", Method: "GET"}
	url1 := "https://idp.local/" + verifapi.NondetString("a.url", 2)
	url2 := "https://idp.local/" + verifapi.NondetString("b.url", 2)
	ref1 := verifapi.NondetString("a.ref", 2)
	ref2 := verifapi.NondetString("b.ref", 2)
	same := url1 == url2 && ref1 == ref2
	if same {
		verifapi.Cover("equal-inputs")
	} else {
		verifapi.Cover("different-inputs")
	}
	switch verifapi.NondetChoice("mechanism", 3) {
	case 0:
		a := &jwtAuthenticator{}
		k1, k2 := a.calculateCacheKey(ep, url1, ref1), a.calculateCacheKey(ep, url2, ref2)
		verifapi.Assert("C11/jwt/key-equal-iff-inputs-equal", (k1 == k2) == same)
	case 1:
		a := &oauth2IntrospectionAuthenticator{}
		k1, k2 := a.calculateCacheKey(ep, url1, ref1), a.calculateCacheKey(ep, url2, ref2)
		verifapi.Assert("C11/introspection/key-equal-iff-inputs-equal", (k1 == k2) == same)
	default:
		a := &genericAuthenticator{e: *ep}
		k1, k2 := a.calculateCacheKey(ref1), a.calculateCacheKey(ref2)
		verifapi.Assert("C11/generic/key-equal-iff-reference-equal", (k1 == k2) == (ref1 == ref2))
	}
}
