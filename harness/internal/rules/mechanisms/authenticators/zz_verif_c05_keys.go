//go:build verif

package authenticators

import (
	"context"
	"encoding/json"
	"net/http"
	"net/http/httptest"
	"time"

	"github.com/go-jose/go-jose/v4"
	"github.com/go-jose/go-jose/v4/jwt"

	"github.com/dadrus/heimdall/internal/rules/endpoint"
	"github.com/dadrus/heimdall/internal/rules/mechanisms/oauth2"
	"github.com/dadrus/heimdall/internal/verifapi"
)

// VerifC05KeySelection: the real verifyToken (key lookup by kid, or trying every key of the set for a
// token without kid) over a key set of two keys. A token is accepted only if its signature verifies
// with the key named by its kid — or, without kid, with some key of the set — AND its claims satisfy
// the assertions, whatever the position of the signing key in the set.
func VerifC05KeySelection() {
	const issuer = "https://trusted.example"
	kids := []string{"k1", "k2"}
	signer := verifapi.NondetChoice("signed-with", 3)      // index into the key set, 2 = a key not in the set
	kidKind := verifapi.NondetChoice("token.kid", 4)       // 0 none, 1 = k1, 2 = k2, 3 = unknown
	trusted := verifapi.NondetBool("claims.issuer-trusted") // the one assertion under study here
	expired := verifapi.NondetBool("claims.expired")
	tokenKid := []string{"", "k1", "k2", "kx"}[kidKind]

	iss := issuer
	if !trusted {
		iss = "https://evil.example"
	}
	exp := oauth2.NumericDate(verifapi.Now().Unix() + 3600)
	if expired {
		exp = oauth2.NumericDate(verifapi.Now().Unix() - 3600)
	}
	claims := oauth2.Claims{Issuer: iss, Subject: "alice", Expiry: &exp}

	var zero time.Duration
	a := &jwtAuthenticator{id: "jwt", sf: vSubjectFactory{id: "jwt-subject"}, ttl: &zero,
		a: oauth2.Expectation{TrustedIssuers: []string{issuer}, ScopesMatcher: oauth2.NoopMatcher{}, AllowedAlgorithms: defaultAllowedAlgorithms()}}
	if verifapi.NondetBool("assertions.issuers.from-metadata-only") {
		a.a.TrustedIssuers = nil // the issuer of the server metadata is the trusted one
	}
	ctx := &vC11Ctx{app: context.Background()}
	var token *jwt.JSONWebToken
	if verifapi.Symbolic() {
		VerifJWTSigValid = map[string]bool{"k1": signer == 0, "k2": signer == 1}
		VerifJWTClaims, VerifJWTMapClaims = claims, map[string]any{"iss": iss, "sub": "alice"}
		VerifJWKS = &jose.JSONWebKeySet{Keys: []jose.JSONWebKey{{KeyID: "k1", Algorithm: "ES256"}, {KeyID: "k2", Algorithm: "ES256"}}}
		VerifJWKSErr = nil
		a.r = vMetadataResolver{md: oauth2.ServerMetadata{Issuer: issuer, JWKSEndpoint: &endpoint.Endpoint{URL: "http://jwks.verif/keys", Method: "GET"}}}
		token = &jwt.JSONWebToken{Headers: []jose.Header{{Algorithm: "ES256", KeyID: tokenKid}}}
	} else {
		var signing [3]any
		var public [3]any
		for i := range signing {
			signing[i], public[i] = vC05NativeKey("ES256")
		}
		opts := (&jose.SignerOptions{}).WithType("JWT")
		if tokenKid != "" {
			opts = opts.WithHeader("kid", tokenKid)
		}
		sg, err := jose.NewSigner(jose.SigningKey{Algorithm: jose.ES256, Key: signing[signer]}, opts)
		if err != nil {
			panic(err)
		}
		raw, err := jwt.Signed(sg).Claims(claims).Serialize()
		if err != nil {
			panic(err)
		}
		if token, err = jwt.ParseSigned(raw, supportedAlgorithms()); err != nil {
			panic(err)
		}
		srv := httptest.NewServer(http.HandlerFunc(func(rw http.ResponseWriter, _ *http.Request) {
			rw.Header().Set("Content-Type", "application/json")
			json.NewEncoder(rw).Encode(jose.JSONWebKeySet{Keys: []jose.JSONWebKey{
				{KeyID: kids[0], Algorithm: "ES256", Key: public[0], Use: "sig"},
				{KeyID: kids[1], Algorithm: "ES256", Key: public[1], Use: "sig"}}})
		}))
		defer srv.Close()
		a.r = vMetadataResolver{md: oauth2.ServerMetadata{Issuer: issuer, JWKSEndpoint: &endpoint.Endpoint{URL: srv.URL, Method: "GET"}}}
	}

	snap := verifapi.Snapshot(a)
	rawClaims, err := a.verifyToken(ctx, token)
	accepted := err == nil && len(rawClaims) != 0
	verifapi.Cover("verified")
	// C17: verifying a token does not write to the (shared) authenticator
	verifapi.Assert("C17/execute/jwt-authenticator-unchanged-by-verifying-a-token", !verifapi.Changed(snap))

	signatureOK := false
	switch kidKind {
	case 0: // no kid: any key of the set may verify
		signatureOK = signer < 2
	case 1, 2:
		signatureOK = signer == kidKind-1
	}
	claimsOK := trusted && !expired
	if accepted {
		verifapi.Cover("accepted")
	}
	verifapi.Assert("C05/keys/accepted-only-if-signature-verifies-with-the-selected-key", !accepted || signatureOK)
	verifapi.Assert("C05/keys/accepted-only-if-claims-satisfy-assertions", !accepted || claimsOK)
	verifapi.Assert("C05/keys/correct-token-accepted", !(signatureOK && claimsOK) || accepted)
	verifapi.Assert("C05/keys/error-and-payload-agree", (err == nil) == (len(rawClaims) != 0))
}
