//go:build verif

package authenticators

import (
	"crypto/ecdsa"
	"crypto/ed25519"
	"crypto/elliptic"
	"crypto/rand"
	"crypto/rsa"
	"time"

	"github.com/go-jose/go-jose/v4"
	"github.com/go-jose/go-jose/v4/jwt"

	"github.com/dadrus/heimdall/internal/rules/mechanisms/oauth2"
	"github.com/dadrus/heimdall/internal/verifapi"
)

// ---------------------------------------------------------------------------
// C05: the decision logic around the signature check. In the engine go-jose is cut at
// JSONWebToken.Claims (the "signature oracle"): it succeeds for a key iff the harness said
// the token is signed with that key, and then yields the symbolic claims. Natively a real
// token is signed with real keys so that counterexamples replay against go-jose itself.
// ---------------------------------------------------------------------------

// published for the engine's go-jose stub
var (
	VerifJWTSigValid  = map[string]bool{}
	VerifJWTClaims    oauth2.Claims
	VerifJWTMapClaims map[string]any
)

var vC05Algs = []string{"ES256", "ES384", "PS256", "RS256", "HS256", "EdDSA"}

func vC05Family(alg string) int {
	switch alg {
	case "ES256":
		return 0
	case "ES384":
		return 1
	case "PS256", "RS256", "PS384", "PS512", "RS384", "RS512":
		return 2
	case "HS256", "HS384", "HS512":
		return 3
	case "EdDSA":
		return 4
	}
	return -1
}

// vC05NativeKey creates real key material of the family of alg (native replay only).
func vC05NativeKey(alg string) (signing any, public any) {
	switch vC05Family(alg) {
	case 0:
		k, _ := ecdsa.GenerateKey(elliptic.P256(), rand.Reader)
		return k, &k.PublicKey
	case 1:
		k, _ := ecdsa.GenerateKey(elliptic.P384(), rand.Reader)
		return k, &k.PublicKey
	case 2:
		k, _ := rsa.GenerateKey(rand.Reader, 2048)
		return k, &k.PublicKey
	case 3:
		b := make([]byte, 64)
		rand.Read(b)
		return b, b
	default:
		pub, priv, _ := ed25519.GenerateKey(rand.Reader)
		return priv, pub
	}
}

type vC05Key struct {
	kid      string
	declared string // the JWK's alg member ("" = absent)
	family   int    // the real type of the key
	sigValid bool   // the token is signed with this key
}

// VerifC05KeyAndAlgorithm: token alg x key (declared alg, real family, signed or not) x allowed algorithms.
func VerifC05KeyAndAlgorithm() { verifC05(true) }

// VerifC05Claims: issuer, audience, scopes, validity period and issuance time against the assertions.
func VerifC05Claims() { verifC05(false) }

func verifC05(keyAspect bool) {
	now := verifapi.Now().Unix()

	// ---- token header and the key offered for verification ----
	headerAlg, declared := "ES256", "ES256"
	key := vC05Key{kid: "k1", family: 0, sigValid: true}
	if keyAspect {
		headerAlg = vC05Algs[verifapi.NondetChoice("header.alg", len(vC05Algs))]
		declared = append([]string{""}, vC05Algs...)[verifapi.NondetChoice("key.alg", len(vC05Algs)+1)]
		key.family = verifapi.NondetChoice("key.family", 5)
		key.sigValid = verifapi.NondetBool("signed_with_this_key")
	}
	key.declared = declared
	// contract of the signature oracle: a signature can only verify with a key of the family of the header's alg
	verifapi.Assume(!key.sigValid || key.family == vC05Family(headerAlg))

	// ---- claims ----
	issuers := []string{"https://trusted.example", "https://metadata-issuer.example", "https://evil.example"}
	pick := func(name string, n int) int {
		if keyAspect {
			return 0
		}
		return verifapi.NondetChoice(name, n)
	}
	flag := func(name string) bool { return !keyAspect && verifapi.NondetBool(name) }
	iss := issuers[pick("claims.iss", 3)]
	var aud oauth2.Audience
	switch pick("claims.aud", 4) {
	case 1:
		aud = oauth2.Audience{"svc-a"}
	case 2:
		aud = oauth2.Audience{"svc-b"}
	case 3:
		aud = oauth2.Audience{"svc-b", "svc-a"}
	}
	var scp oauth2.Scopes
	switch pick("claims.scp", 4) {
	case 1:
		scp = oauth2.Scopes{"read"}
	case 2:
		scp = oauth2.Scopes{"write"}
	case 3:
		scp = oauth2.Scopes{"write", "read"}
	}
	date := func(n string) (*oauth2.NumericDate, bool, int64) {
		if !flag(n + ".present") {
			return nil, false, 0
		}
		v := now + verifapi.NondetIntRange(n+".delta", -(1 << 31), 1<<31)
		if flag(n + ".near-epoch") {
			// instants around the epoch, independent of the clock (so that a counterexample replays natively)
			v = verifapi.NondetIntRange(n+".epoch-offset", -1000, 1000)
		}
		d := oauth2.NumericDate(v)
		return &d, true, v
	}
	exp, hasExp, expV := date("claims.exp")
	nbf, hasNbf, nbfV := date("claims.nbf")
	iat, hasIat, iatV := date("claims.iat")
	claims := oauth2.Claims{Issuer: iss, Subject: "alice", Audience: aud, Scp: scp, Expiry: exp, NotBefore: nbf, IssuedAt: iat}
	mapClaims := map[string]any{"iss": iss, "sub": "alice"}

	// ---- configured assertions ----
	leeways := []time.Duration{0, time.Second, time.Minute}
	leeway := leeways[pick("assertions.validity_leeway", 3)]
	leewaySec := int64(10)
	if leeway != 0 {
		leewaySec = int64(leeway / time.Second)
	}
	var audiences []string
	if flag("assertions.audience.configured") {
		audiences = []string{"svc-a"}
	}
	var scopes oauth2.ScopesMatcher = oauth2.NoopMatcher{}
	requireRead := flag("assertions.scopes.configured")
	if requireRead {
		scopes = oauth2.ExactScopeStrategyMatcher{"read"}
	}
	allowed := defaultAllowedAlgorithms()
	if keyAspect && verifapi.NondetBool("assertions.allowed_algorithms.configured") {
		allowed = []string{"RS256", "ES256"}
	}
	assertions := oauth2.Expectation{TrustedIssuers: []string{issuers[0]}, Audiences: audiences, ScopesMatcher: scopes,
		AllowedAlgorithms: allowed, ValidityLeeway: leeway}

	// ---- run the real verification ----
	a := &jwtAuthenticator{id: "jwt"}
	var token *jwt.JSONWebToken
	jwk := &jose.JSONWebKey{KeyID: key.kid, Algorithm: key.declared}
	if verifapi.Symbolic() {
		VerifJWTSigValid = map[string]bool{key.kid: key.sigValid}
		VerifJWTClaims, VerifJWTMapClaims = claims, mapClaims
		token = &jwt.JSONWebToken{Headers: []jose.Header{{Algorithm: headerAlg, KeyID: key.kid}}}
	} else {
		signing, public := vC05NativeKey(headerAlg)
		signer, err := jose.NewSigner(jose.SigningKey{Algorithm: jose.SignatureAlgorithm(headerAlg), Key: signing},
			(&jose.SignerOptions{}).WithType("JWT").WithHeader("kid", key.kid))
		if err != nil {
			panic(err)
		}
		raw, err := jwt.Signed(signer).Claims(claims).Serialize()
		if err != nil {
			panic(err)
		}
		if token, err = jwt.ParseSigned(raw, supportedAlgorithms()); err != nil {
			panic(err)
		}
		if key.sigValid {
			jwk.Key = public
		} else {
			// a key of the stated family that did not sign the token
			fam := []string{"ES256", "ES384", "PS256", "HS256", "EdDSA"}[key.family]
			_, jwk.Key = vC05NativeKey(fam)
		}
	}
	rawClaims, err := a.verifyTokenWithKey(token, jwk, &assertions)
	accepted := err == nil && len(rawClaims) != 0

	// ---- documented acceptance conditions (all are necessary) ----
	algAgrees := key.declared == headerAlg
	algAllowed := false
	for _, al := range allowed {
		if al == key.declared {
			algAllowed = true
		}
	}
	issOK := iss == issuers[0]
	audOK := len(audiences) == 0
	for _, x := range aud {
		if x == "svc-a" {
			audOK = true
		}
	}
	scopeOK := !requireRead
	for _, x := range scp {
		if x == "read" {
			scopeOK = true
		}
	}
	notExpired := !hasExp || now-leewaySec < expV
	alreadyValid := !hasNbf || nbfV <= now+leewaySec
	iatOK := !hasIat || iatV <= now+leewaySec

	if accepted {
		verifapi.Cover("accepted")
	} else {
		verifapi.Cover("rejected")
	}
	verifapi.Assert("C05/accepted-only-if-signature-verifies", !accepted || key.sigValid)
	verifapi.Assert("C05/accepted-only-if-key-alg-equals-token-alg", !accepted || algAgrees)
	verifapi.Assert("C05/accepted-only-if-alg-allowed", !accepted || algAllowed)
	verifapi.Assert("C05/symmetric-alg-never-accepted-by-default", !accepted || len(allowed) != 6 || vC05Family(headerAlg) != 3)
	verifapi.Assert("C05/accepted-only-if-issuer-trusted", !accepted || issOK)
	verifapi.Assert("C05/accepted-only-if-audience-expected", !accepted || audOK)
	verifapi.Assert("C05/accepted-only-if-scopes-matched", !accepted || scopeOK)
	verifapi.Assert("C05/accepted-only-if-not-expired", !accepted || notExpired)
	verifapi.Assert("C05/accepted-only-if-already-valid", !accepted || alreadyValid)
	verifapi.Assert("C05/accepted-only-if-not-issued-in-the-future", !accepted || iatOK)
	// and a token meeting all conditions is accepted
	all := key.sigValid && algAgrees && algAllowed && issOK && audOK && scopeOK && notExpired && alreadyValid && iatOK
	verifapi.Assert("C05/correct-token-accepted", !all || accepted)
}
