//go:build verif

package authenticators

import (
	"context"
	"encoding/json"
	"errors"
	"net/http"
	"net/http/httptest"
	"time"

	"github.com/dadrus/heimdall/internal/cache"
	"github.com/dadrus/heimdall/internal/heimdall"
	"github.com/dadrus/heimdall/internal/rules/endpoint"
	"github.com/dadrus/heimdall/internal/rules/mechanisms/oauth2"
	"github.com/dadrus/heimdall/internal/verifapi"
)

// ---------------------------------------------------------------------------
// C11 (reuse skeleton of the introspection authenticator): what the real getSubjectInformation puts
// into the cache and serves from it. Two requests with the same token run against one cache; the
// introspection answer is arbitrary (active or not, with or without the required scope, any expiry).
// ---------------------------------------------------------------------------

type vC11Cache struct {
	entries map[string][]byte
	sets    int
	hits    int
}

func (c *vC11Cache) Start(context.Context) error { return nil }
func (c *vC11Cache) Stop(context.Context) error  { return nil }
func (c *vC11Cache) Get(_ context.Context, key string) ([]byte, error) {
	if v, ok := c.entries[key]; ok {
		c.hits++
		return v, nil
	}
	return nil, errors.New("no entry")
}

func (c *vC11Cache) Set(_ context.Context, key string, value []byte, _ time.Duration) error {
	c.sets++
	c.entries[key] = value
	return nil
}

type vC11Ctx struct{ app context.Context }

func (c *vC11Ctx) Request() *heimdall.Request          { return &heimdall.Request{Method: "GET"} }
func (c *vC11Ctx) AddHeaderForUpstream(string, string) {}
func (c *vC11Ctx) AddCookieForUpstream(string, string) {}
func (c *vC11Ctx) AppContext() context.Context         { return c.app }
func (c *vC11Ctx) SetPipelineError(error)              {}
func (c *vC11Ctx) Outputs() map[string]any             { return nil }

// what the introspection endpoint answers (engine: handed out by the stand-in of the remote call)
var (
	vC11Answer   *oauth2.IntrospectionResponse
	vC11Raw      []byte
	vC11Requests int
)

func verifStub_oauth2IntrospectionAuthenticator_fetchTokenIntrospectionResponse(
	_ *oauth2IntrospectionAuthenticator, _ heimdall.Context, _ *http.Client, _ *http.Request,
) (*oauth2.IntrospectionResponse, []byte, error) {
	vC11Requests++
	answer := *vC11Answer
	return &answer, vC11Raw, nil
}

func VerifC11IntrospectionReuse() {
	const issuer = "https://idp.example"
	active := verifapi.NondetBool("answer.active")
	hasScope := verifapi.NondetBool("answer.has-required-scope")
	trustedIssuer := verifapi.NondetBool("answer.trusted-issuer")
	expIn := verifapi.NondetIntRange("answer.exp-in-seconds", -100, 100000)
	ttlKind := verifapi.NondetChoice("cache_ttl", 3) // unset, 0 (off), 30s

	now := verifapi.Now()
	exp := oauth2.NumericDate(now.Unix() + expIn)
	answer := &oauth2.IntrospectionResponse{Active: active, Claims: oauth2.Claims{Subject: "alice", Expiry: &exp, Issuer: issuer}}
	if !trustedIssuer {
		answer.Issuer = "https://evil.example"
	}
	answer.Scp = oauth2.Scopes{"read"}
	if hasScope {
		answer.Scp = oauth2.Scopes{"read", "admin"}
	}
	raw, _ := json.Marshal(answer)
	vC11Answer, vC11Raw, vC11Requests = answer, raw, 0

	ep := &endpoint.Endpoint{URL: "http://idp.verif/introspect", Method: http.MethodPost}
	if !verifapi.Symbolic() {
		srv := httptest.NewServer(http.HandlerFunc(func(rw http.ResponseWriter, _ *http.Request) {
			vC11Requests++
			rw.Header().Set("Content-Type", "application/json")
			rw.Write(raw)
		}))
		defer srv.Close()
		ep.URL = srv.URL
	}
	a := &oauth2IntrospectionAuthenticator{id: "introspection",
		r: vMetadataResolver{md: oauth2.ServerMetadata{Issuer: issuer, IntrospectionEndpoint: ep}},
		a: oauth2.Expectation{ScopesMatcher: oauth2.ExactScopeStrategyMatcher{"admin"}, ValidityLeeway: time.Second}}
	switch ttlKind {
	case 1:
		var zero time.Duration
		a.ttl = &zero
	case 2:
		d := 30 * time.Second
		a.ttl = &d
	}
	cch := &vC11Cache{entries: map[string][]byte{}}
	ctx := &vC11Ctx{app: cache.WithContext(context.Background(), cch)}

	acceptable := active && hasScope && trustedIssuer && expIn > -1

	snap := verifapi.Snapshot(a)
	first, err1 := a.getSubjectInformation(ctx, "opaque-token")
	verifapi.Cover("first-request")
	if acceptable {
		verifapi.Cover("accepted")
	} else {
		verifapi.Cover("rejected")
	}
	verifapi.Assert("C11/introspection/accepted-iff-the-answer-satisfies-the-assertions", (err1 == nil) == acceptable)
	verifapi.Assert("C11/introspection/caching-off-stores-nothing", ttlKind != 1 || cch.sets == 0)

	// the same token again: the outcome is the same, whether served from the cache or not
	second, err2 := a.getSubjectInformation(ctx, "opaque-token")
	verifapi.Assert("C11/introspection/repeated-request-same-outcome", (err2 == nil) == (err1 == nil))
	if err1 == nil && err2 == nil {
		verifapi.Assert("C11/introspection/repeated-request-same-subject-information", string(first) == string(second))
	}

	// another rule uses the same authenticator with its own (rule level) assertions: what it accepts
	// depends on ITS assertions only, not on what an earlier rule has put into the shared cache
	other := *a
	otherNeedsAdmin := verifapi.NondetBool("other-rule.requires-admin-scope")
	if otherNeedsAdmin {
		other.a = oauth2.Expectation{ScopesMatcher: oauth2.ExactScopeStrategyMatcher{"admin"}, ValidityLeeway: time.Second}
	} else {
		other.a = oauth2.Expectation{ScopesMatcher: oauth2.ExactScopeStrategyMatcher{"read"}, ValidityLeeway: time.Second}
	}
	acceptableForOther := active && trustedIssuer && expIn > -1 && (hasScope || !otherNeedsAdmin)
	_, err3 := other.getSubjectInformation(ctx, "opaque-token")
	verifapi.Cover("other-rule")
	verifapi.Assert("C11/introspection/other-rule-decides-by-its-own-assertions", (err3 == nil) == acceptableForOther)
	// and the first rule is not affected by what the other one cached
	_, err4 := a.getSubjectInformation(ctx, "opaque-token")
	verifapi.Assert("C11/introspection/first-rule-still-decides-by-its-own-assertions", (err4 == nil) == acceptable)
	// C17: handling requests does not write to the (shared) authenticator
	verifapi.Assert("C17/execute/introspection-authenticator-unchanged-by-requests", !verifapi.Changed(snap))
	if cch.hits > 0 {
		verifapi.Cover("served-from-cache")
		// an entry exists only after some rule has accepted the answer
		verifapi.Assert("C11/introspection/served-from-cache-only-after-acceptance", err1 == nil || err3 == nil)
	}
}
