//go:build verif

package authenticators

import (
	"github.com/dadrus/heimdall/internal/verifapi"
)

// VerifC04WithConfigFallback: the fallback flag a rule observes is its own override if it gives one
// (true or false) and the flag of the catalogue definition otherwise — for every authenticator type
// that supports the option, every prototype value and every override.
func VerifC04WithConfigFallback() {
	protoFlag := verifapi.NondetBool("prototype.allow_fallback_on_error")
	var override *bool
	config := map[string]any{"cache_ttl": "5s"}
	switch verifapi.NondetChoice("override.allow_fallback_on_error", 3) {
	case 1:
		v := true
		override = &v
		config["allow_fallback_on_error"] = true
	case 2:
		v := false
		override = &v
		config["allow_fallback_on_error"] = false
	}
	var proto Authenticator
	switch verifapi.NondetChoice("mechanism", 4) {
	case 0:
		proto = &jwtAuthenticator{id: "jwt", allowFallbackOnError: protoFlag}
	case 1:
		proto = &oauth2IntrospectionAuthenticator{id: "introspection", allowFallbackOnError: protoFlag}
	case 2:
		proto = &genericAuthenticator{id: "generic", allowFallbackOnError: protoFlag}
	default:
		proto = &basicAuthAuthenticator{id: "basic", allowFallbackOnError: protoFlag}
		delete(config, "cache_ttl")
		config["user_id"] = "u"
	}
	// engine: the decoder is replaced by this stand-in, which decodes the one option under study
	vDecodeHook = func(output any) bool {
		verifapi.SetField(output, "AllowFallbackOnError", override)
		return true
	}
	defer func() { vDecodeHook = nil }()
	variant, err := proto.WithConfig(config)
	verifapi.Assert("C04/with-config/override-accepted", err == nil && variant != nil)
	verifapi.Cover("variant-created")
	want := protoFlag
	if override != nil {
		want = *override
	}
	verifapi.Assert("C04/with-config/rule-level-flag-overrides-else-inherits", variant.IsFallbackOnErrorAllowed() == want)
	verifapi.Assert("C04/with-config/prototype-keeps-its-flag", proto.IsFallbackOnErrorAllowed() == protoFlag)
}
