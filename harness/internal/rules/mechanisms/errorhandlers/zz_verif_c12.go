//go:build verif

package errorhandlers

// VerifNewWWWAuthenticate builds the real www_authenticate error handler for the harnesses of the entry points.
func VerifNewWWWAuthenticate(realm string) ErrorHandler {
	return &wwwAuthenticateErrorHandler{id: "challenge", realm: realm}
}
