//go:build verif

package template

import "crypto/sha256"

// Engine-only replacement of New (see the harness stub hook): text/template parsing and sprig are
// outside the encoding. The stand-in renders to its own text, which is what the real template does
// for texts without directives; harnesses that reach it only use such texts.
type verifLiteralTemplate struct{ text string }

func (t verifLiteralTemplate) Render(map[string]any) (string, error) { return t.text, nil }

func (t verifLiteralTemplate) Hash() []byte {
	h := sha256.New()
	h.Write([]byte(t.text))

	return h.Sum(nil)
}

func verifStub_New(val string) (Template, error) { return verifLiteralTemplate{text: val}, nil }
