//go:build verif

package contextualizers

import (
	"time"

	"github.com/dadrus/heimdall/internal/heimdall"
	"github.com/dadrus/heimdall/internal/rules/endpoint"
	"github.com/dadrus/heimdall/internal/rules/mechanisms/subject"
	"github.com/dadrus/heimdall/internal/verifapi"
)

func vC11Contextualizer() *genericContextualizer {
	return &genericContextualizer{
		id: "ctx",
		e: endpoint.Endpoint{URL: "http://ctx.local/info", Method: "POST",
			Headers: map[string]string{"X-User": "{{ .Subject.ID }}", "X-Path": "{{ .Request.URL.Path }}"}},
		fwdHeaders: []string{"X-A", "X-B"},
		fwdCookies: []string{"c"},
		ttl:        10 * time.Second,
	}
}

func vC11Reps() int {
	if verifapi.Symbolic() {
		return 2
	}
	return 64
}

func VerifC11ContextualizerKeyDeterministic() {
	h := vC11Contextualizer()
	sub := &subject.Subject{ID: verifapi.NondetStringN("sub.id", 2), Attributes: map[string]any{"role": verifapi.NondetStringN("sub.role", 1)}}
	values := map[string]string{"tenant": verifapi.NondetStringN("values.tenant", 2), "policy": verifapi.NondetStringN("values.policy", 2)}
	payload := verifapi.NondetStringN("payload", 2)
	ctx := &vC11Ctx{req: &heimdall.Request{Method: "GET", RequestFunctions: vC11KeyRequest{a: "1", b: "2", c: "3"}}}
	first := h.calculateCacheKey(ctx, sub, values, payload)
	for i := 1; i < vC11Reps(); i++ {
		verifapi.Cover("recomputed")
		verifapi.Assert("C11/contextualizer/key-independent-of-map-iteration-order", h.calculateCacheKey(ctx, sub, values, payload) == first)
	}
}

func VerifC11ContextualizerKeyNoAliasing() {
	h := vC11Contextualizer()
	mk := func(n string) (*subject.Subject, map[string]string, string) {
		sub := &subject.Subject{ID: verifapi.NondetStringN(n+".sub.id", 1), Attributes: map[string]any{"role": verifapi.NondetStringN(n+".sub.role", 1)}}
		values := map[string]string{"tenant": verifapi.NondetString(n+".values.tenant", 2), "policy": verifapi.NondetString(n+".values.policy", 2)}
		return sub, values, verifapi.NondetString(n+".payload", 2)
	}
	s1, v1, p1 := mk("a")
	s2, v2, p2 := mk("b")
	// the forwarded request values are equal here; VerifC11ContextualizerKeyForwardedValues varies them
	r1 := vC11KeyRequest{a: "1", b: "2", c: "3"}
	r2 := r1
	k1 := h.calculateCacheKey(&vC11Ctx{req: &heimdall.Request{Method: "GET", RequestFunctions: r1}}, s1, v1, p1)
	k2 := h.calculateCacheKey(&vC11Ctx{req: &heimdall.Request{Method: "GET", RequestFunctions: r2}}, s2, v2, p2)
	same := s1.ID == s2.ID && s1.Attributes["role"] == s2.Attributes["role"] && p1 == p2 &&
		v1["tenant"] == v2["tenant"] && v1["policy"] == v2["policy"] && r1 == r2
	if same {
		verifapi.Cover("equal-requests")
		verifapi.Assert("C11/contextualizer/equal-requests-share-the-key", k1 == k2)
	} else {
		verifapi.Cover("different-requests")
		verifapi.Assert("C11/contextualizer/different-requests-never-share-a-key", k1 != k2)
	}
}

// VerifC11ContextualizerKeyForwardedValues: two requests that differ at most in the request headers and
// the cookie forwarded to the endpoint (values of any length, also shifted across their boundaries)
// share a key only if all forwarded values are equal.
func VerifC11ContextualizerKeyForwardedValues() {
	h := vC11Contextualizer()
	sub := &subject.Subject{ID: "alice", Attributes: map[string]any{"role": "user"}}
	values := map[string]string{"tenant": "t"}
	mk := func(n string) vC11KeyRequest {
		return vC11KeyRequest{a: verifapi.NondetString(n+".header.X-A", 2), b: verifapi.NondetString(n+".header.X-B", 2), c: verifapi.NondetString(n+".cookie.c", 1)}
	}
	r1, r2 := mk("a"), mk("b")
	k1 := h.calculateCacheKey(&vC11Ctx{req: &heimdall.Request{Method: "GET", RequestFunctions: r1}}, sub, values, "p")
	k2 := h.calculateCacheKey(&vC11Ctx{req: &heimdall.Request{Method: "GET", RequestFunctions: r2}}, sub, values, "p")
	if r1 == r2 {
		verifapi.Cover("equal-requests")
		verifapi.Assert("C11/contextualizer/equal-forwarded-values-share-the-key", k1 == k2)
	} else {
		verifapi.Cover("different-requests")
		verifapi.Assert("C11/contextualizer/different-forwarded-values-never-share-a-key", k1 != k2)
	}
}

// vC11KeyRequest: the request functions the cache key reads (forwarded headers X-A, X-B and cookie c)
type vC11KeyRequest struct{ a, b, c string }

func (r vC11KeyRequest) Header(name string) string {
	switch name {
	case "X-A":
		return r.a
	case "X-B":
		return r.b
	}
	return ""
}

func (r vC11KeyRequest) Cookie(name string) string {
	if name == "c" {
		return r.c
	}
	return ""
}
func (r vC11KeyRequest) Headers() map[string]string { return map[string]string{"X-A": r.a, "X-B": r.b} }
func (r vC11KeyRequest) Body() any                  { return nil }
