//go:build verif

package contextualizers

import (
	"time"

	"github.com/dadrus/heimdall/internal/rules/endpoint"
	"github.com/dadrus/heimdall/internal/rules/mechanisms/subject"
	"github.com/dadrus/heimdall/internal/verifapi"
)

func vC11Contextualizer() *genericContextualizer {
	return &genericContextualizer{
		id: "ctx",
		e: endpoint.Endpoint{URL: "http://ctx.local/info", Method: "POST",
			Headers: map[string]string{"X-User": "{{ .Subject.ID }}", "X-Path": "{{ .Request.URL.Path }}"}},
		fwdHeaders: []string{"X-A", "X-B"},
		fwdCookies: []string{"c"},
		ttl:        10 * time.Second,
	}
}

func vC11Reps() int {
	if verifapi.Symbolic() {
		return 2
	}
	return 64
}

func VerifC11ContextualizerKeyDeterministic() {
	h := vC11Contextualizer()
	sub := &subject.Subject{ID: verifapi.NondetStringN("sub.id", 2), Attributes: map[string]any{"role": verifapi.NondetStringN("sub.role", 1)}}
	values := map[string]string{"tenant": verifapi.NondetStringN("values.tenant", 2), "policy": verifapi.NondetStringN("values.policy", 2)}
	payload := verifapi.NondetStringN("payload", 2)
	first := h.calculateCacheKey(sub, values, payload)
	for i := 1; i < vC11Reps(); i++ {
		verifapi.Cover("recomputed")
		verifapi.Assert("C11/contextualizer/key-independent-of-map-iteration-order", h.calculateCacheKey(sub, values, payload) == first)
	}
}

func VerifC11ContextualizerKeyNoAliasing() {
	h := vC11Contextualizer()
	mk := func(n string) (*subject.Subject, map[string]string, string) {
		sub := &subject.Subject{ID: verifapi.NondetStringN(n+".sub.id", 1), Attributes: map[string]any{"role": verifapi.NondetStringN(n+".sub.role", 1)}}
		values := map[string]string{"tenant": verifapi.NondetString(n+".values.tenant", 2), "policy": verifapi.NondetString(n+".values.policy", 2)}
		return sub, values, verifapi.NondetString(n+".payload", 2)
	}
	s1, v1, p1 := mk("a")
	s2, v2, p2 := mk("b")
	k1 := h.calculateCacheKey(s1, v1, p1)
	k2 := h.calculateCacheKey(s2, v2, p2)
	same := s1.ID == s2.ID && s1.Attributes["role"] == s2.Attributes["role"] && p1 == p2 &&
		v1["tenant"] == v2["tenant"] && v1["policy"] == v2["policy"]
	if same {
		verifapi.Cover("equal-requests")
		verifapi.Assert("C11/contextualizer/equal-requests-share-the-key", k1 == k2)
	} else {
		verifapi.Cover("different-requests")
		verifapi.Assert("C11/contextualizer/different-requests-never-share-a-key", k1 != k2)
	}
}
