//go:build verif

package contextualizers

import (
	"context"
	"errors"
	"io"
	"net/http"
	"net/http/httptest"
	"strings"
	"time"

	"github.com/dadrus/heimdall/internal/cache"
	"github.com/dadrus/heimdall/internal/heimdall"
	"github.com/dadrus/heimdall/internal/rules/endpoint"
	"github.com/dadrus/heimdall/internal/rules/mechanisms/subject"
	"github.com/dadrus/heimdall/internal/verifapi"
)

// ---------------------------------------------------------------------------
// C11 (reuse skeleton of the generic contextualizer): the endpoint's answer depends on what is sent
// to it — also on the request headers and cookies configured to be forwarded. Two requests of the same
// subject against one cache: the second one receives the answer computed for ITS forwarded header and
// cookie, and an identical request is answered from the cache without calling the endpoint again.
// ---------------------------------------------------------------------------

type vC11Cache struct {
	entries map[string][]byte
	hits    int
}

func (c *vC11Cache) Start(context.Context) error { return nil }
func (c *vC11Cache) Stop(context.Context) error  { return nil }
func (c *vC11Cache) Get(_ context.Context, key string) ([]byte, error) {
	if v, ok := c.entries[key]; ok {
		c.hits++
		return v, nil
	}
	return nil, errors.New("no entry")
}

func (c *vC11Cache) Set(_ context.Context, key string, value []byte, _ time.Duration) error {
	c.entries[key] = value
	return nil
}

type vC11Request struct{ tenant, session string }

func (r vC11Request) Header(name string) string {
	if name == "X-Tenant" {
		return r.tenant
	}
	return ""
}
func (r vC11Request) Cookie(name string) string {
	if name == "session" {
		return r.session
	}
	return ""
}
func (r vC11Request) Headers() map[string]string { return map[string]string{"X-Tenant": r.tenant} }
func (r vC11Request) Body() any                  { return nil }

type vC11Ctx struct {
	app     context.Context
	req     *heimdall.Request
	outputs map[string]any
}

func (c *vC11Ctx) Request() *heimdall.Request          { return c.req }
func (c *vC11Ctx) AddHeaderForUpstream(string, string) {}
func (c *vC11Ctx) AddCookieForUpstream(string, string) {}
func (c *vC11Ctx) AppContext() context.Context         { return c.app }
func (c *vC11Ctx) SetPipelineError(error)              {}
func (c *vC11Ctx) Outputs() map[string]any             { return c.outputs }

var vC11EndpointCalls int

// what the endpoint answers: a text naming the tenant header and the session cookie it received
func vC11Answer(req *http.Request) string {
	session := ""
	if c, err := req.Cookie("session"); err == nil {
		session = c.Value
	}
	return "tenant=" + req.Header.Get("X-Tenant") + ";session=" + session
}

// engine: the remote end behind the (cut) HTTP client
func VerifRoundTrip(req *http.Request) (*http.Response, error) {
	vC11EndpointCalls++
	body := vC11Answer(req)
	return &http.Response{StatusCode: http.StatusOK, Header: http.Header{"Content-Type": {"text/plain"}},
		Body: io.NopCloser(strings.NewReader(body)), ContentLength: int64(len(body))}, nil
}

func VerifC11ContextualizerReuse() {
	vC11EndpointCalls = 0
	letter := func(name string) string { return string([]byte{verifapi.NondetByteRange(name, 'a', 'z')}) }
	first := vC11Request{tenant: letter("first.tenant"), session: letter("first.session")}
	second := vC11Request{tenant: letter("second.tenant"), session: letter("second.session")}

	ep := endpoint.Endpoint{URL: "http://ctx.verif/info", Method: http.MethodPost}
	if !verifapi.Symbolic() {
		srv := httptest.NewServer(http.HandlerFunc(func(rw http.ResponseWriter, req *http.Request) {
			vC11EndpointCalls++
			rw.Header().Set("Content-Type", "text/plain")
			io.WriteString(rw, vC11Answer(req))
		}))
		defer srv.Close()
		ep.URL = srv.URL
	}
	h := &genericContextualizer{id: "ctx", e: ep, ttl: 30 * time.Second, fwdHeaders: []string{"X-Tenant"}, fwdCookies: []string{"session"}}
	cch := &vC11Cache{entries: map[string][]byte{}}
	app := cache.WithContext(context.Background(), cch)
	sub := &subject.Subject{ID: "alice", Attributes: map[string]any{}}
	run := func(r vC11Request) (any, error) {
		ctx := &vC11Ctx{app: app, outputs: map[string]any{}, req: &heimdall.Request{Method: "GET", RequestFunctions: r}}
		err := h.Execute(ctx, sub)
		return ctx.outputs["ctx"], err
	}
	want := func(r vC11Request) string { return "tenant=" + r.tenant + ";session=" + r.session }

	snap := verifapi.Snapshot(h)
	out1, err1 := run(first)
	verifapi.Cover("first-request")
	verifapi.Assert("C11/contextualizer/first-request-gets-its-answer", err1 == nil && out1 == any(want(first)))
	out2, err2 := run(second)
	verifapi.Cover("second-request")
	verifapi.Assert("C11/contextualizer/second-request-gets-the-answer-for-its-own-forwarded-values", err2 == nil && out2 == any(want(second)))
	// C17: executing the contextualizer does not write to it
	verifapi.Assert("C17/execute/contextualizer-unchanged-by-requests", !verifapi.Changed(snap))
	if first == second {
		verifapi.Cover("identical-requests")
		verifapi.Assert("C11/contextualizer/identical-request-served-from-cache", vC11EndpointCalls == 1 && cch.hits == 1)
	}
}
