//go:build verif

package rules

import (
	"github.com/dadrus/heimdall/internal/rules/rule"
	"github.com/dadrus/heimdall/internal/verifapi"
)

// ---------------------------------------------------------------------------
// C07: rule-set changes are atomic for concurrent lookups and never lost.
// Two provider threads change their own source while a third thread looks rules up; the
// interleaving of all lock acquisitions of repository_impl.go is explored by the engine.
// ---------------------------------------------------------------------------

// the sources own disjoint expressions which share tree nodes (/svc/, /svc/a…)
var vC07Versions = map[string][][]vRuleSpec{
	"A": {
		{{id: "a1", hash: "1", paths: []string{"/svc/alpha"}}, {id: "a2", hash: "1", paths: []string{"/svc/gamma"}}},
		{{id: "a1", hash: "2", paths: []string{"/svc/alpha"}}, {id: "a2", hash: "2", paths: []string{"/svc/gamma"}}},
	},
	"B": {
		{{id: "b1", hash: "1", paths: []string{"/svc/beta"}}, {id: "b2", hash: "1", paths: []string{"/svc/:x/sub"}}},
		{{id: "b1", hash: "2", paths: []string{"/svc/beta"}}, {id: "b3", hash: "2", paths: []string{"/svc/delta"}}},
	},
}

var vC07Probes = map[string][]string{
	"A": {"/svc/alpha", "/svc/gamma"},
	"B": {"/svc/beta", "/svc/q/sub", "/svc/delta"},
}

// vC07Expect is the sequential model: what a lookup of path yields when source src is at version ver (-1: absent).
func vC07Expect(src string, ver int, path string) string {
	if ver < 0 {
		return ""
	}
	for _, sp := range vC07Versions[src][ver] {
		for _, p := range sp.paths {
			if p == path || (p == "/svc/:x/sub" && path == "/svc/q/sub") {
				return src + "/" + sp.id + "#" + sp.hash
			}
		}
	}
	return ""
}

type vC07Op struct {
	src       string
	kind      int // 0 add, 1 update, 2 delete
	before    int
	after     int
	rules     []rule.Rule
	err       error
	completed bool
}

func (o *vC07Op) run(repo rule.Repository) {
	switch o.kind {
	case 0:
		o.err = repo.AddRuleSet(o.src, o.rules)
	case 1:
		o.err = repo.UpdateRuleSet(o.src, o.rules)
	default:
		o.err = repo.DeleteRuleSet(o.src)
	}
	o.completed = true
}

func vC07Plan(repo rule.Repository, src string) *vC07Op {
	op := &vC07Op{src: src, before: -1, after: -1}
	if verifapi.NondetChoice("loaded:"+src, 2) == 1 {
		op.before = 0
		if err := repo.AddRuleSet(src, vBuildRules(src, vC07Versions[src][0], nil)); err != nil {
			verifapi.Assert("C07/setup-accepted", false)
		}
		if verifapi.NondetChoice("op:"+src, 2) == 0 {
			op.kind, op.after = 1, 1
			op.rules = vBuildRules(src, vC07Versions[src][1], nil)
		} else {
			op.kind = 2
		}
		return op
	}
	op.kind, op.after = 0, verifapi.NondetChoice("version:"+src, 2)
	op.rules = vBuildRules(src, vC07Versions[src][op.after], nil)
	return op
}

func VerifC07Concurrent() {
	repo := newRepository(&vFactory{})
	// main draws every nondeterministic value before the threads start
	opA := vC07Plan(repo, "A")
	opB := vC07Plan(repo, "B")
	watched := opA
	if verifapi.NondetChoice("reader-watches", 2) == 1 {
		watched = opB
	}
	probes := vC07Probes[watched.src]
	i1 := verifapi.NondetChoice("probe1", len(probes))
	p1 := probes[i1]
	p2 := probes[(i1+1)%len(probes)]
	if verifapi.Bound("all_probe_pairs", 0) == 1 {
		p2 = probes[verifapi.NondetChoice("probe2", len(probes))]
	}
	var seen1, seen2 string

	verifapi.Concurrent("C07")
	verifapi.Go("provider-A", func() { opA.run(repo) })
	verifapi.Go("provider-B", func() { opB.run(repo) })
	verifapi.Go("request", func() {
		seen1, _ = vLookup(repo, p1)
		seen2, _ = vLookup(repo, p2)
	})
	verifapi.Join()
	verifapi.Cover("joined")

	verifapi.Assert("C07/changes-complete-without-error", opA.completed && opB.completed && opA.err == nil && opB.err == nil)

	// every lookup saw the complete state before or the complete state after the change of its source
	b1, a1 := vC07Expect(watched.src, watched.before, p1), vC07Expect(watched.src, watched.after, p1)
	b2, a2 := vC07Expect(watched.src, watched.before, p2), vC07Expect(watched.src, watched.after, p2)
	verifapi.Assert("C07/lookup-sees-before-or-after-state", (seen1 == b1 || seen1 == a1) && (seen2 == b2 || seen2 == a2))
	// … and the change is never observed to go backwards: once the later state was seen it stays
	if seen1 == a1 && a1 != b1 && a2 != b2 {
		verifapi.Assert("C07/later-lookup-does-not-see-older-state", seen2 == a2)
	}

	// no change is lost: the final matching behaviour is that of both sources' last versions
	for _, op := range []*vC07Op{opA, opB} {
		for _, p := range vC07Probes[op.src] {
			got, _ := vLookup(repo, p)
			verifapi.Assert("C07/final-state-reflects-every-change", got == vC07Expect(op.src, op.after, p))
		}
	}
	// … and the bookkeeping used by later changes agrees: removing one source leaves exactly the other
	if err := repo.DeleteRuleSet("A"); err != nil {
		verifapi.Assert("C07/later-change-accepted", false)
	}
	for _, p := range vC07Probes["A"] {
		got, _ := vLookup(repo, p)
		verifapi.Assert("C07/later-delete-removes-the-source", got == "")
	}
	for _, p := range vC07Probes["B"] {
		got, _ := vLookup(repo, p)
		verifapi.Assert("C07/later-delete-keeps-the-other-source", got == vC07Expect("B", opB.after, p))
	}
}

// VerifC07SymbolicLookup: one provider thread changes its source while a request with an arbitrary
// (symbolic) path is looked up; whatever the path and the interleaving, the lookup answers like the
// complete state before or the complete state after the change (two reference repositories built
// sequentially and asked for the same symbolic path).
func VerifC07SymbolicLookup() {
	maxLen := verifapi.Bound("max_path_len", 4)
	repo := newRepository(&vFactory{})
	before := newRepository(&vFactory{})
	after := newRepository(&vFactory{})
	activeSrc, idleSrc := "A", "B"
	if verifapi.NondetChoice("changing-source", 2) == 1 {
		activeSrc, idleSrc = "B", "A"
	}
	active := vC07Plan(repo, activeSrc)
	idle := &vC07Op{src: idleSrc, before: 0, after: 0}
	if verifapi.Bound("idle_states", 0) == 1 && verifapi.NondetChoice("idle-loaded", 2) == 0 {
		idle.before, idle.after = -1, -1
	} else if err := repo.AddRuleSet(idleSrc, vBuildRules(idleSrc, vC07Versions[idleSrc][0], nil)); err != nil {
		verifapi.Assert("C07/setup-accepted", false)
	}
	opA, opB := active, idle
	// the other source keeps its initial state
	for _, ref := range []rule.Repository{before, after} {
		for _, op := range []*vC07Op{opA, opB} {
			ver := op.before
			if ref == after && op == active {
				ver = op.after
			}
			if ver >= 0 {
				if err := ref.AddRuleSet(op.src, vBuildRules(op.src, vC07Versions[op.src][ver], nil)); err != nil {
					verifapi.Assert("C07/setup-accepted", false)
				}
			}
		}
	}
	_ = idle
	n := verifapi.NondetChoice("path-len", maxLen+1)
	path := "/svc/" + verifapi.NondetStringN("path", n)
	var seen string
	var seenCaps map[string]string

	verifapi.Concurrent("C07")
	verifapi.Go("provider", func() { active.run(repo) })
	verifapi.Go("request", func() { seen, seenCaps = vLookup(repo, path) })
	verifapi.Join()
	verifapi.Cover("joined")

	verifapi.Assert("C07/changes-complete-without-error", active.completed && active.err == nil)
	wantB, capsB := vLookup(before, path)
	wantA, capsA := vLookup(after, path)
	sameCaps := func(x, y map[string]string) bool {
		if len(x) != len(y) {
			return false
		}
		for k, v := range x {
			if w, ok := y[k]; !ok || w != v {
				return false
			}
		}
		return true
	}
	okBefore := seen == wantB && sameCaps(seenCaps, capsB)
	okAfter := seen == wantA && sameCaps(seenCaps, capsA)
	verifapi.Assert("C07/symbolic-lookup-sees-before-or-after-state", okBefore || okAfter)
	got, _ := vLookup(repo, path)
	verifapi.Assert("C07/final-state-reflects-every-change", got == wantA)
}
