//go:build verif

package truststore

import (
	"fmt"

	"github.com/dadrus/heimdall/internal/verifapi"
)

// VerifC19TrustStoreBytes: a trust store file that is empty, holds no PEM data at all, or is cut off inside
// its first block (as seen half-written) yields an error or an empty store — never a panic.
func VerifC19TrustStoreBytes() {
	contents := [][]byte{
		nil,
		[]byte(""),
		[]byte("\n"),
		[]byte("not a pem file"),
		[]byte("-----BEGIN CERTIFICATE-----\nMIIB"),
		[]byte("-----BEGIN CERTIFICATE-----\n"),
	}[verifapi.NondetChoice("file.contents", 6)]
	strict := verifapi.NondetBool("strict")
	crashed := ""
	var ts TrustStore
	var err error
	func() {
		defer func() {
			if r := recover(); r != nil {
				crashed = fmt.Sprint(r)
			}
		}()
		ts, err = NewTrustStoreFromPEMBytes(contents, strict)
	}()
	verifapi.Cover("loaded")
	verifapi.Observe("crashed", crashed)
	verifapi.Assert("C19/trust-store/loading-never-panics", crashed == "")
	verifapi.Assert("C19/trust-store/no-certificates-from-no-pem-data", crashed != "" || err != nil || len(ts) == 0)
}
