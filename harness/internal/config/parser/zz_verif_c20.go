//go:build verif

package parser

import (
	"fmt"
	"os"
	"path/filepath"
	"strings"

	"github.com/knadh/koanf/providers/confmap"
	"github.com/knadh/koanf/v2"
	"gopkg.in/yaml.v3"

	"github.com/dadrus/heimdall/internal/verifapi"
)

// ---------------------------------------------------------------------------
// C20 (kernel): defaults -> file -> environment merge of the real loader: the environment wins for
// exactly the leaves it defines, defaults fill the rest, independent of the enumeration order of
// the environment and of every map iteration order.
// ---------------------------------------------------------------------------

// published to / by the engine's stubs
var (
	VerifEnviron      []string
	VerifMergedConfig map[string]any
)

type vItem struct {
	ID   string `koanf:"id"`
	Role string `koanf:"role"`
}

type vNested struct {
	A       string `koanf:"a"`
	SomeKey string `koanf:"some_key"`
}

type vConf struct {
	Name   string   `koanf:"name"`
	Nested vNested  `koanf:"nested"`
	// like heimdall's own configuration types, lists without defaults are pointers
	List  *[]string `koanf:"list"`
	Items *[]vItem  `koanf:"items"`
}

type vLeaf struct {
	path string // dotted path in the tree
	env  string // environment variable (without prefix)
}

var vLeaves = []vLeaf{
	{"name", "NAME"},
	{"nested.a", "NESTED_A"},
	{"nested.some_key", "NESTED_SOME__KEY"},
	{"list.0", "LIST_0"},
	{"list.1", "LIST_1"},
	{"items.0.id", "ITEMS_0_ID"},
	{"items.0.role", "ITEMS_0_ROLE"},
	{"items.1.id", "ITEMS_1_ID"},
}

// engine-side replacements of the file / struct front ends (natively the real ones run on a real file)
var vC20File, vC20Defaults map[string]any

func verifStub_koanfFromYaml(string) (*koanf.Koanf, error) {
	k := koanf.New(".")
	return k, k.Load(confmap.Provider(vC20File, ""), nil)
}

func verifStub_koanfFromStruct(any) (*koanf.Koanf, error) {
	k := koanf.New(".")
	return k, k.Load(confmap.Provider(vC20Defaults, ""), nil)
}

func verifStub_toRealType(val string) any { return val }

func vTree(vals map[string]string) map[string]any {
	t := map[string]any{}
	set := func(path string) (string, bool) { v, ok := vals[path]; return v, ok }
	if v, ok := set("name"); ok {
		t["name"] = v
	}
	nested := map[string]any{}
	if v, ok := set("nested.a"); ok {
		nested["a"] = v
	}
	if v, ok := set("nested.some_key"); ok {
		nested["some_key"] = v
	}
	if len(nested) != 0 {
		t["nested"] = nested
	}
	var list []any
	for i := 0; i < 2; i++ {
		if v, ok := set(fmt.Sprintf("list.%d", i)); ok {
			for len(list) < i {
				list = append(list, "")
			}
			list = append(list, v)
		}
	}
	if list != nil {
		t["list"] = list
	}
	var items []any
	for i := 0; i < 2; i++ {
		it := map[string]any{}
		if v, ok := set(fmt.Sprintf("items.%d.id", i)); ok {
			it["id"] = v
		}
		if v, ok := set(fmt.Sprintf("items.%d.role", i)); ok {
			it["role"] = v
		}
		if len(it) != 0 {
			for len(items) < i {
				items = append(items, map[string]any{})
			}
			items = append(items, it)
		}
	}
	if items != nil {
		t["items"] = items
	}
	return t
}

func vLookup(tree map[string]any, path string) (string, bool) {
	var cur any = tree
	for _, p := range strings.Split(path, ".") {
		switch c := cur.(type) {
		case map[string]any:
			cur = c[p]
		case []any:
			i := int(p[0] - '0')
			if i >= len(c) {
				return "", false
			}
			cur = c[i]
		default:
			return "", false
		}
	}
	s, ok := cur.(string)
	return s, ok
}

func VerifC20Load() {
	// ---- who defines which leaf ----
	fileVals, envVals := map[string]string{}, map[string]string{}
	pattern := verifapi.NondetChoice("pattern", 6)
	// fixed splits for pattern 3: 'f' file, 'e' environment, 'b' both, '-' neither (one letter per leaf)
	splits := []string{"fefefefe", "efefefef", "bf-ebfe-", "-e-fbbbe", "ffffeeee", "eeeeffff", "bbbbbb--", "f-e-febf"}
	split := splits[0]
	override := 0
	if pattern == 3 {
		split = splits[verifapi.NondetChoice("split", len(splits))]
	}
	if pattern == 4 {
		override = verifapi.NondetChoice("overridden_leaf", len(vLeaves))
	}
	for i, l := range vLeaves {
		inFile, inEnv := false, false
		switch pattern {
		case 0: // everything in the file
			inFile = true
		case 1: // everything in the environment
			inEnv = true
		case 2: // both define everything: the environment wins everywhere
			inFile, inEnv = true, true
		case 3: // a split from the catalogue
			inFile, inEnv = split[i] == 'f' || split[i] == 'b', split[i] == 'e' || split[i] == 'b'
		case 4: // file complete, the environment overrides one leaf
			inFile, inEnv = true, i == override
		default: // lists only from the environment
			inEnv = i >= 3
			inFile = i < 3
		}
		if inFile {
			// the value in the file is arbitrary text (its last letter is symbolic)
			fileVals[l.path] = "file-" + l.path + "-" + string([]byte{verifapi.NondetByteRange("file.value", 'a', 'z')})
		}
		if inEnv {
			// the two fields of one list entry may carry equal values
			envVals[l.path] = "env-" + l.path
			if l.path == "items.0.id" || l.path == "items.0.role" {
				envVals[l.path] = []string{"x", "y"}[verifapi.NondetChoice("env.value", 2)]
			}
		}
	}
	// list elements must not leave holes (the documentation does not define them)
	hole := func(vals map[string]string, a, b string) bool { _, ha := vals[a]; _, hb := vals[b]; return hb && !ha }
	has := func(vals map[string]string, p string) bool { _, ok := vals[p]; return ok }
	if (hole(envVals, "list.0", "list.1") && !has(fileVals, "list.0")) || hole(fileVals, "list.0", "list.1") {
		return
	}
	if (has(envVals, "items.1.id") && !has(envVals, "items.0.id") && !has(envVals, "items.0.role") && !has(fileVals, "items.0.id") && !has(fileVals, "items.0.role")) ||
		(has(fileVals, "items.1.id") && !has(fileVals, "items.0.id") && !has(fileVals, "items.0.role")) {
		return
	}
	defaults := map[string]string{"name": "default-name", "nested.a": "default-a"}

	// ---- environment in an arbitrary enumeration order ----
	var environ []string
	for _, l := range vLeaves {
		if v, ok := envVals[l.path]; ok {
			environ = append(environ, "VERIFCFG_"+l.env+"="+v)
		}
	}
	environ = append(environ, "UNRELATED=1")
	// enumeration orders: as listed, reversed, every rotation, and an odd/even interleaving
	n := len(environ)
	switch k := verifapi.NondetChoice("environ.order", n+2); {
	case k == n:
		for i, j := 0, n-1; i < j; i, j = i+1, j-1 {
			environ[i], environ[j] = environ[j], environ[i]
		}
	case k == n+1:
		var odd, even []string
		for i, e := range environ {
			if i%2 == 0 {
				even = append(even, e)
			} else {
				odd = append(odd, e)
			}
		}
		environ = append(odd, even...)
	default:
		environ = append(append([]string(nil), environ[k:]...), environ[:k]...)
	}

	// ---- load ----
	conf := &vConf{Name: defaults["name"], Nested: vNested{A: defaults["nested.a"]}}
	var opts []Option
	opts = append(opts, WithEnvPrefix("VERIFCFG_"))
	if verifapi.Symbolic() {
		VerifEnviron = environ
		vC20File, vC20Defaults = vTree(fileVals), vTree(defaults)
		opts = append(opts, WithConfigFile("/etc/heimdall/verif.yaml"))
	} else {
		dir, err := os.MkdirTemp("", "verif-c20-")
		if err != nil {
			panic(err)
		}
		defer os.RemoveAll(dir)
		raw, _ := yaml.Marshal(vTree(fileVals))
		file := filepath.Join(dir, "conf.yaml")
		os.WriteFile(file, raw, 0o600)
		opts = append(opts, WithConfigFile(file))
		for _, kv := range environ {
			k, v, _ := strings.Cut(kv, "=")
			os.Setenv(k, v)
			defer os.Unsetenv(k)
		}
	}
	err := New(opts...).Load(conf)
	verifapi.Assert("C20/load-succeeds", err == nil)

	// ---- the observed value of every leaf ----
	observed := func(path string) (string, bool) {
		if verifapi.Symbolic() {
			return vLookup(VerifMergedConfig, path)
		}
		switch path {
		case "name":
			return conf.Name, true
		case "nested.a":
			return conf.Nested.A, true
		case "nested.some_key":
			return conf.Nested.SomeKey, true
		case "list.0", "list.1":
			i := int(path[5] - '0')
			if conf.List != nil && i < len(*conf.List) {
				return (*conf.List)[i], true
			}
			return "", false
		default:
			i := int(path[6] - '0')
			if conf.Items == nil || i >= len(*conf.Items) {
				return "", false
			}
			if strings.HasSuffix(path, ".id") {
				return (*conf.Items)[i].ID, true
			}
			return (*conf.Items)[i].Role, true
		}
	}
	verifapi.Cover("loaded")
	for _, l := range vLeaves {
		want, defined := envVals[l.path]
		if !defined {
			want, defined = fileVals[l.path]
		}
		if !defined {
			want, defined = defaults[l.path]
		}
		got, ok := observed(l.path)
		if !defined {
			verifapi.Assert("C20/undefined-leaf-stays-empty/"+l.path, !ok || got == "")
			continue
		}
		verifapi.Assert("C20/environment-wins-per-leaf-else-file-else-default/"+l.path, ok && got == want)
	}
}
