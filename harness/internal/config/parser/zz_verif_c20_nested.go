//go:build verif

package parser

import (
	"os"
	"path/filepath"
	"strings"

	"github.com/dadrus/heimdall/internal/verifapi"
)

// VerifC20NestedList: a list that lives BELOW a map (like mechanisms.authenticators in heimdall's own
// configuration) given entirely through the environment: every leaf arrives, for every enumeration order
// of the variables and every map iteration order.

type vThingConfig struct {
	URL string `koanf:"url"`
}

type vThing struct {
	ID     string       `koanf:"id"`
	Type   string       `koanf:"type"`
	Config vThingConfig `koanf:"config"`
}

type vGroup struct {
	Things *[]vThing `koanf:"things"`
}

type vNestedConf struct {
	Group vGroup `koanf:"group"`
}

func VerifC20NestedList() {
	letter := func(n string) string { return string([]byte{verifapi.NondetByteRange(n, 'a', 'z')}) }
	vals := map[string]string{
		"GROUP_THINGS_0_ID":   "id-" + letter("things.0.id"),
		"GROUP_THINGS_0_TYPE": "type-" + letter("things.0.type"),
		"GROUP_THINGS_1_ID":   "id-" + letter("things.1.id"),
	}
	names := []string{"GROUP_THINGS_0_ID", "GROUP_THINGS_0_TYPE", "GROUP_THINGS_1_ID"}
	// a nested structure inside a list entry
	nestedInEntry := verifapi.NondetBool("entry.has-nested-structure")
	if nestedInEntry {
		vals["GROUP_THINGS_1_CONFIG_URL"] = "url-" + letter("things.1.config.url")
	}
	orders := [][]int{{0, 1, 2}, {0, 2, 1}, {1, 0, 2}, {1, 2, 0}, {2, 0, 1}, {2, 1, 0}}
	var environ []string
	for _, i := range orders[verifapi.NondetChoice("environ.order", len(orders))] {
		environ = append(environ, "VERIFCFG_"+names[i]+"="+vals[names[i]])
	}
	if nestedInEntry {
		environ = append(environ, "VERIFCFG_GROUP_THINGS_1_CONFIG_URL="+vals["GROUP_THINGS_1_CONFIG_URL"])
	}
	environ = append(environ, "UNRELATED=1")

	conf := &vNestedConf{}
	opts := []Option{WithEnvPrefix("VERIFCFG_")}
	if verifapi.Symbolic() {
		VerifEnviron = environ
		vC20File, vC20Defaults = map[string]any{}, map[string]any{}
		opts = append(opts, WithConfigFile("/etc/heimdall/verif.yaml"))
	} else {
		dir, err := os.MkdirTemp("", "verif-c20-")
		if err != nil {
			panic(err)
		}
		defer os.RemoveAll(dir)
		file := filepath.Join(dir, "conf.yaml")
		os.WriteFile(file, []byte("{}\n"), 0o600)
		opts = append(opts, WithConfigFile(file))
		for _, kv := range environ {
			k, v, _ := strings.Cut(kv, "=")
			os.Setenv(k, v)
			defer os.Unsetenv(k)
		}
	}
	err := New(opts...).Load(conf)
	verifapi.Assert("C20/nested-list/load-succeeds", err == nil)
	verifapi.Cover("loaded")

	get := func(i int, field string) (string, bool) {
		if verifapi.Symbolic() {
			return vLookup(VerifMergedConfig, "group.things."+string(rune('0'+i))+"."+field)
		}
		if conf.Group.Things == nil || i >= len(*conf.Group.Things) {
			return "", false
		}
		switch field {
		case "id":
			return (*conf.Group.Things)[i].ID, true
		case "config.url":
			return (*conf.Group.Things)[i].Config.URL, true
		}
		return (*conf.Group.Things)[i].Type, true
	}
	for _, c := range []struct {
		i     int
		field string
		env   string
	}{{0, "id", "GROUP_THINGS_0_ID"}, {0, "type", "GROUP_THINGS_0_TYPE"}, {1, "id", "GROUP_THINGS_1_ID"}} {
		got, ok := get(c.i, c.field)
		verifapi.Assert("C20/nested-list/every-leaf-of-a-list-below-a-map-arrives/"+c.env, ok && got == vals[c.env])
	}
	if nestedInEntry {
		got, ok := get(1, "config.url")
		verifapi.Region("KF-C20-nested-structure-in-list-entry-from-environment", true)
		verifapi.Assert("C20/nested-list/nested-structure-inside-a-list-entry-arrives", ok && got == vals["GROUP_THINGS_1_CONFIG_URL"])
	}
}
