//go:build verif

package parser

import (
	"os"
	"path/filepath"

	"github.com/dadrus/heimdall/internal/verifapi"
)

// VerifC20ZeroValueOverrides: a source of higher priority wins for a leaf also when the value it gives is
// the zero value of its type (false, 0): the file over the defaults.

type vZeroConf struct {
	Flag  bool   `koanf:"flag"`
	Count int    `koanf:"count"`
	Name  string `koanf:"name"`
}

func VerifC20ZeroValueOverrides() {
	fileSetsFlag := verifapi.NondetBool("file.defines.flag")
	fileSetsCount := verifapi.NondetBool("file.defines.count")
	conf := &vZeroConf{Flag: true, Count: 5, Name: "default"}
	file := map[string]any{}
	yaml := "name: from-file\n"
	if fileSetsFlag {
		file["flag"] = false
		yaml += "flag: false\n"
	}
	if fileSetsCount {
		file["count"] = 0
		yaml += "count: 0\n"
	}
	file["name"] = "from-file"
	opts := []Option{WithEnvPrefix("VERIFCFG_")}
	if verifapi.Symbolic() {
		VerifEnviron = []string{"UNRELATED=1"}
		vC20File, vC20Defaults = file, map[string]any{"flag": true, "count": 5, "name": "default"}
		opts = append(opts, WithConfigFile("/etc/heimdall/verif.yaml"))
	} else {
		dir, err := os.MkdirTemp("", "verif-c20-")
		if err != nil {
			panic(err)
		}
		defer os.RemoveAll(dir)
		path := filepath.Join(dir, "conf.yaml")
		os.WriteFile(path, []byte(yaml), 0o600)
		opts = append(opts, WithConfigFile(path))
	}
	err := New(opts...).Load(conf)
	verifapi.Assert("C20/zero-values/load-succeeds", err == nil)
	verifapi.Cover("loaded")
	flag, count := conf.Flag, conf.Count
	if verifapi.Symbolic() {
		f, _ := VerifMergedConfig["flag"].(bool)
		c, _ := VerifMergedConfig["count"].(int)
		flag, count = f, c
	}
	verifapi.Assert("C20/zero-values/file-wins-over-default-also-with-false", flag == !fileSetsFlag)
	wantCount := 5
	if fileSetsCount {
		wantCount = 0
	}
	verifapi.Assert("C20/zero-values/file-wins-over-default-also-with-zero", count == wantCount)
}
