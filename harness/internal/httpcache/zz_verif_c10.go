//go:build verif

package httpcache

import (
	"bufio"
	"context"
	"errors"
	"fmt"
	"net/http"
	"net/url"
	"time"

	"github.com/pquerna/cachecontrol"
	"github.com/pquerna/cachecontrol/cacheobject"

	"github.com/dadrus/heimdall/internal/cache"
	"github.com/dadrus/heimdall/internal/verifapi"
)

// ---------------------------------------------------------------------------
// C10 (http cache of endpoints): a response is never stored beyond the freshness lifetime it
// declares itself; the configured default TTL applies only to responses without freshness
// information; responses that must not be stored are not stored.
// The RFC 7234 evaluation (pquerna/cachecontrol) is cut: in the engine its result is derived from
// the same (kind, max-age) the native response carries in its headers.
// ---------------------------------------------------------------------------

type vC10Cache struct {
	sets   int
	ttl    time.Duration
	stored map[string][]byte
}

func (c *vC10Cache) Start(context.Context) error { return nil }
func (c *vC10Cache) Stop(context.Context) error  { return nil }
func (c *vC10Cache) Get(_ context.Context, key string) ([]byte, error) {
	if v, ok := c.stored[key]; ok {
		return v, nil
	}
	return nil, errors.New("no entry")
}

func (c *vC10Cache) Set(_ context.Context, key string, value []byte, ttl time.Duration) error {
	c.sets++
	c.ttl = ttl
	c.stored[key] = value
	return nil
}

var (
	vC10Kind   int   // 0: no freshness information, 1: explicit expiry, 2: no-store
	vC10MaxAge int64 // seconds until the expiry the response declares (zero or negative: already expired)
	vC10Now    time.Time
	vC10Calls  int
)

func VerifCachableResponse(*http.Request, *http.Response, cachecontrol.Options) ([]cacheobject.Reason, time.Time, error) {
	switch vC10Kind {
	case 1:
		return nil, vC10Now.Add(time.Duration(vC10MaxAge) * time.Second), nil
	case 2:
		return []cacheobject.Reason{cacheobject.ReasonResponseNoStore}, time.Time{}, nil
	}
	return nil, time.Time{}, nil
}

func VerifDumpResponse(*http.Response, bool) ([]byte, error) { return []byte("dump"), nil }

func VerifReadResponse(*bufio.Reader, *http.Request) (*http.Response, error) {
	return &http.Response{StatusCode: http.StatusOK, Header: http.Header{"X-From-Cache": {"1"}}}, nil
}

type vC10Origin struct{}

func (vC10Origin) RoundTrip(*http.Request) (*http.Response, error) {
	vC10Calls++
	h := http.Header{"Content-Type": {"application/json"}}
	if !verifapi.Symbolic() { // the engine's stand-in of the RFC 7234 evaluation does not read the headers
		h.Set("Date", time.Now().UTC().Format(http.TimeFormat))
		switch vC10Kind {
		case 1:
			if vC10MaxAge >= 0 {
				h.Set("Cache-Control", fmt.Sprintf("max-age=%d", vC10MaxAge))
			} else { // an expiry date in the past
				h.Set("Expires", time.Now().Add(time.Duration(vC10MaxAge)*time.Second).UTC().Format(http.TimeFormat))
			}
		case 2:
			h.Set("Cache-Control", "no-store")
		}
	}
	return &http.Response{StatusCode: http.StatusOK, Status: "200 OK", Proto: "HTTP/1.1", ProtoMajor: 1, ProtoMinor: 1,
		Header: h, Body: http.NoBody, ContentLength: 0}, nil
}

func VerifC10HTTPCache() {
	vC10Kind = verifapi.NondetChoice("response.freshness", 3)
	vC10MaxAge = verifapi.NondetIntRange("response.max_age", -(1 << 24), 1<<24)
	vC10Calls = 0
	var def time.Duration
	if verifapi.NondetBool("default_ttl.set") {
		def = time.Duration(verifapi.NondetIntRange("default_ttl.seconds", 1, 1<<24)) * time.Second
	}
	cch := &vC10Cache{stored: map[string][]byte{}}
	ctx := cache.WithContext(context.Background(), cch)
	rt := &RoundTripper{Transport: vC10Origin{}, DefaultCacheTTL: def}
	u, _ := url.Parse("http://remote.local/jwks")
	req := (&http.Request{Method: http.MethodGet, URL: u, Header: http.Header{}}).WithContext(ctx)

	vC10Now = verifapi.Now()
	resp, err := rt.RoundTrip(req)
	verifapi.Assert("C10/httpcache/response-returned", err == nil && resp != nil && vC10Calls == 1)
	verifapi.Cover("origin-asked")
	switch vC10Kind {
	case 2:
		verifapi.Assert("C10/httpcache/no-store-is-not-stored", cch.sets == 0)
	case 1:
		if vC10MaxAge <= 0 {
			// the response is stale on arrival: it must not be stored at all (the cache back ends treat a
			// non-positive TTL as "no expiry")
			verifapi.Cover("already-expired")
			verifapi.Assert("C10/httpcache/already-expired-response-is-not-stored", cch.sets == 0)
			break
		}
		verifapi.Cover("explicit-freshness")
		verifapi.Assert("C10/httpcache/stored-once", cch.sets == 1)
		// never beyond the freshness lifetime the response declares, whatever default is configured
		verifapi.Assert("C10/httpcache/not-beyond-declared-freshness", cch.ttl <= time.Duration(vC10MaxAge)*time.Second)
		verifapi.Assert("C10/httpcache/declared-freshness-used", cch.ttl > time.Duration(vC10MaxAge-5)*time.Second)
	default:
		if def == 0 {
			verifapi.Assert("C10/httpcache/no-information-no-default-not-stored", cch.sets == 0)
		} else {
			verifapi.Cover("default-ttl-used")
			verifapi.Assert("C10/httpcache/default-only-without-information", cch.sets == 1 && cch.ttl <= def && cch.ttl > def-5*time.Second)
		}
	}
	// whatever is stored has a positive lifetime (a non-positive TTL means "never expires" in the back ends)
	verifapi.Assert("C10/httpcache/stored-with-positive-ttl", cch.sets == 0 || cch.ttl > 0)
	// a stored response is served without asking the origin again
	if cch.sets == 1 {
		resp2, err2 := rt.RoundTrip(req)
		verifapi.Assert("C10/httpcache/stored-response-served", err2 == nil && resp2 != nil && vC10Calls == 1)
	}
}
