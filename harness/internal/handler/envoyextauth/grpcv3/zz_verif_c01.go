//go:build verif

package grpcv3

import (
	"context"

	envoy_auth "github.com/envoyproxy/go-control-plane/envoy/service/auth/v3"
	"github.com/grpc-ecosystem/go-grpc-middleware/v2/interceptors/recovery"
	"google.golang.org/grpc/codes"
	"google.golang.org/grpc/status"

	"github.com/dadrus/heimdall/internal/handler/middleware/grpc/errorhandler"
	"github.com/dadrus/heimdall/internal/rules"
	"github.com/dadrus/heimdall/internal/verifapi"
)

// VerifC01Envoy: recovery interceptor -> error interceptor -> Handler.Check -> real rule
// executor ... -> grpcv3 Finalize.
func VerifC01Envoy() {
	s := rules.VerifC01Build(false)

	rec := recovery.UnaryServerInterceptor(recovery.WithRecoveryHandler(func(any) error {
		return status.Error(codes.Internal, "internal error")
	}))
	ehi := errorhandler.New()
	h := &Handler{e: s.Executor}

	creq := &envoy_auth.CheckRequest{Attributes: &envoy_auth.AttributeContext{Request: &envoy_auth.AttributeContext_Request{
		Http: &envoy_auth.AttributeContext_HttpRequest{Method: "GET", Scheme: "http", Host: "svc.verif", Path: "/some/path",
			Headers: map[string]string{}}}}}
	resp, err := rec(context.Background(), creq, nil, func(ctx context.Context, req any) (any, error) {
		return ehi(ctx, req, nil, func(ctx context.Context, req any) (any, error) {
			return h.Check(ctx, req.(*envoy_auth.CheckRequest))
		})
	})

	positive := false
	deniedStatus := 0
	if err == nil {
		cr, ok := resp.(*envoy_auth.CheckResponse)
		verifapi.Assert("C01/envoy/check-response", ok && cr != nil)
		positive = cr.GetOkResponse() != nil
		if d := cr.GetDeniedResponse(); d != nil {
			deniedStatus = int(d.GetStatus().GetCode())
		}
		verifapi.Assert("C01/envoy/either-ok-or-denied", positive != (cr.GetDeniedResponse() != nil))
		verifapi.Assert("C01/envoy/ok-status-matches", !positive || cr.GetStatus().GetCode() == int32(codes.OK))
	}
	specOK := s.SpecPipelineOK()

	if specOK {
		verifapi.Cover("pipeline-ok")
	} else {
		verifapi.Cover("pipeline-failed")
	}
	if s.Plan.PanicSeen {
		verifapi.Cover("panic")
	}
	if positive {
		verifapi.Cover("positive-answer")
	}
	verifapi.Assert("C01/envoy/positive-only-if-pipeline-ok", !positive || specOK)
	verifapi.Assert("C01/envoy/denied-status-never-2xx", positive || err != nil || deniedStatus < 200 || deniedStatus >= 300)
	verifapi.Assert("C01/envoy/ok-pipeline-is-accepted", !specOK || positive)
}
