//go:build verif

package grpcv3

import (
	"bytes"
	"context"
	"fmt"
	"io"
	"net/http"
	"net/url"
	"sort"
	"strings"

	envoy_auth "github.com/envoyproxy/go-control-plane/envoy/service/auth/v3"

	"github.com/dadrus/heimdall/internal/handler/requestcontext"
	"github.com/dadrus/heimdall/internal/heimdall"
	"github.com/dadrus/heimdall/internal/verifapi"
)

// ---------------------------------------------------------------------------
// C13: one logical request rendered for the HTTP entry points (decision and proxy share
// requestcontext.RequestContext) and for the Envoy gRPC entry point: the views agree.
// ---------------------------------------------------------------------------

type vLogicalRequest struct {
	method, scheme, host, path, query string
	headers                           [][2]string // canonical name, value
	cookie                            string      // Cookie header value ("" = none)
	contentType                       string
	body                              []byte
}

func (l vLogicalRequest) asHTTP() *http.Request {
	target := l.path
	if l.query != "" {
		target += "?" + l.query
	}
	u, err := url.ParseRequestURI(target) // what net/http does with the request line
	if err != nil {
		panic(err)
	}
	req := &http.Request{Method: l.method, URL: u, Host: l.host,
		Proto: "HTTP/1.1", ProtoMajor: 1, ProtoMinor: 1, Header: http.Header{}, RemoteAddr: "192.0.2.1:4711"}
	for _, h := range l.headers {
		req.Header.Add(h[0], h[1])
	}
	if l.cookie != "" {
		req.Header.Set("Cookie", l.cookie)
	}
	if l.contentType != "" {
		req.Header.Set("Content-Type", l.contentType)
	}
	if l.scheme == "https" {
		// heimdall derives the scheme of a plain request from the TLS state; a proxy in front conveys it
		req.Header.Set("X-Forwarded-Proto", "https")
	}
	if len(l.body) != 0 {
		req.Body = io.NopCloser(bytes.NewReader(l.body))
	}
	return req
}

func (l vLogicalRequest) asEnvoy() *envoy_auth.CheckRequest {
	hdrs := map[string]string{}
	for _, h := range l.headers {
		k := strings.ToLower(h[0]) // HTTP/2 header names are lower case
		if v, ok := hdrs[k]; ok {
			hdrs[k] = v + "," + h[1]
		} else {
			hdrs[k] = h[1]
		}
	}
	if l.cookie != "" {
		hdrs["cookie"] = l.cookie
	}
	if l.contentType != "" {
		hdrs["content-type"] = l.contentType
	}
	return &envoy_auth.CheckRequest{Attributes: &envoy_auth.AttributeContext{Request: &envoy_auth.AttributeContext_Request{
		Http: &envoy_auth.AttributeContext_HttpRequest{Method: l.method, Scheme: l.scheme, Host: l.host, Path: l.path, Query: l.query,
			Headers: hdrs, RawBody: l.body}}}}
}

func vDescribe(ctx heimdall.Context, cookieNames []string, headerNames []string) []string {
	r := ctx.Request()
	out := []string{"method=" + r.Method, "scheme=" + r.URL.Scheme, "host=" + r.URL.Host, "path=" + r.URL.Path, "query=" + r.URL.RawQuery}
	// the text the rule lookup and the encoded-slash handling work on: the still encoded path if there is one
	lookup := r.URL.Path
	if len(r.URL.RawPath) != 0 {
		lookup = r.URL.RawPath
	}
	out = append(out, "lookup-path="+lookup)
	for _, n := range headerNames {
		out = append(out, "header["+n+"]="+r.Header(n))
	}
	var all []string
	for k, v := range r.Headers() {
		if k == "Host" || k == "X-Forwarded-Proto" { // the Host pseudo entry / the scheme carrier are transport artefacts
			continue
		}
		all = append(all, k+"="+v)
	}
	sort.Strings(all)
	out = append(out, "headers="+strings.Join(all, ";"))
	for _, n := range cookieNames {
		out = append(out, "cookie["+n+"]="+r.Cookie(n))
	}
	out = append(out, "body="+fmt.Sprintf("%v", r.Body()))
	return out
}

func VerifC13View() {
	l := vLogicalRequest{scheme: []string{"http", "https"}[verifapi.NondetChoice("scheme", 2)], host: "svc.example",
		method: []string{"GET", "POST"}[verifapi.NondetChoice("method", 2)]}
	// path: plain symbolic letters or a percent-encoded octet
	switch verifapi.NondetChoice("path", 5) {
	case 3:
		l.path = "/files/2024%2Freport/info"
		verifapi.Cover("encoded-path")
	case 4:
		l.path = "/docs/100%2541"
		verifapi.Cover("encoded-path")
	case 0:
		l.path = "/files/" + string([]byte{verifapi.NondetByteRange("path.a", 'a', 'z'), verifapi.NondetByteRange("path.b", 'a', 'z')})
	case 1:
		l.path = "/files/a+b"
	default:
		l.path = "/files/%5Bid%5D"
		verifapi.Cover("encoded-path")
	}
	l.query = []string{"", "x=1&y=a%20b"}[verifapi.NondetChoice("query", 2)]
	// headers: a plain header with a symbolic value, optionally repeated
	hv := verifapi.NondetStringN("header.value", 2)
	for i := 0; i < len(hv); i++ {
		verifapi.Assume(hv[i] >= 'a')
		verifapi.Assume(hv[i] <= 'z')
	}
	l.headers = append(l.headers, [2]string{"X-Custom", hv})
	if verifapi.NondetBool("header.repeated") {
		l.headers = append(l.headers, [2]string{"X-Custom", "second"})
	}
	// cookies
	l.cookie = []string{"", "session=abc", "a=1; session=c2Vzc2lvbi1pZA==; b=2", "session=\"quoted\"", " session = spaced ", "other=1", "session=first; theme=dark; session=second"}[verifapi.NondetChoice("cookie", 7)]
	// body
	switch verifapi.NondetChoice("body", 4) {
	case 1:
		l.contentType, l.body = "application/json", []byte(`{"k":"`+string([]byte{verifapi.NondetByteRange("body.v", 'a', 'z')})+`"}`)
	case 2:
		l.contentType, l.body = "application/x-www-form-urlencoded", []byte("k=v&k2=v2")
	case 3:
		l.contentType, l.body = "text/plain", []byte("plain")
	}

	httpCtx := requestcontext.New(l.asHTTP())
	grpcCtx := NewRequestContext(context.Background(), l.asEnvoy())

	names := []string{"X-Custom", "x-custom", "Content-Type"}
	a, b := vDescribe(httpCtx, []string{"session", "missing"}, names), vDescribe(grpcCtx, []string{"session", "missing"}, names)
	verifapi.Cover("views-compared")
	for i := range a {
		label := a[i][:strings.IndexByte(a[i], '=')]
		verifapi.Assert("C13/same-request-view/"+label, a[i] == b[i])
	}

	// values written during rule lookup are visible during execution (same request object)
	httpCtx.Request().URL.Captures = map[string]string{"id": "42"}
	grpcCtx.Request().URL.Captures = map[string]string{"id": "42"}
	verifapi.Assert("C13/captures-survive/http", httpCtx.Request().URL.Captures["id"] == "42")
	verifapi.Assert("C13/captures-survive/grpc", grpcCtx.Request().URL.Captures["id"] == "42")
}
