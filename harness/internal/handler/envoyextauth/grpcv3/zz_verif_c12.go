//go:build verif

package grpcv3

import (
	"context"

	envoy_auth "github.com/envoyproxy/go-control-plane/envoy/service/auth/v3"

	"github.com/dadrus/heimdall/internal/handler/middleware/grpc/errorhandler"
	"github.com/dadrus/heimdall/internal/heimdall"
	"github.com/dadrus/heimdall/internal/rules/mechanisms/errorhandlers"
	"github.com/dadrus/heimdall/internal/rules/rule"
	"github.com/dadrus/heimdall/internal/verifapi"
)

type vChallengeExecutor struct{ eh errorhandlers.ErrorHandler }

func (e vChallengeExecutor) Execute(ctx heimdall.Context) (rule.Backend, error) {
	return nil, e.eh.Execute(ctx, heimdall.ErrAuthentication)
}

// VerifC12ChallengeEnvoy: the same challenge through the Envoy gRPC service (error interceptor -> Check -> Finalize):
// a denied response with 401 and a WWW-Authenticate header naming the realm.
func VerifC12ChallengeEnvoy() {
	realm := "realm-" + string([]byte{verifapi.NondetByteRange("realm", 'a', 'z')})
	ehi := errorhandler.New()
	h := &Handler{e: vChallengeExecutor{eh: errorhandlers.VerifNewWWWAuthenticate(realm)}}
	creq := &envoy_auth.CheckRequest{Attributes: &envoy_auth.AttributeContext{Request: &envoy_auth.AttributeContext_Request{
		Http: &envoy_auth.AttributeContext_HttpRequest{Method: "GET", Scheme: "http", Host: "svc.verif", Path: "/some/path",
			Headers: map[string]string{}}}}}
	resp, err := ehi(context.Background(), creq, nil, func(ctx context.Context, req any) (any, error) {
		return h.Check(ctx, req.(*envoy_auth.CheckRequest))
	})
	verifapi.Cover("challenged")
	cr, _ := resp.(*envoy_auth.CheckResponse)
	denied := cr.GetDeniedResponse()
	verifapi.Assert("C12/challenge/envoy/denied-with-401", err == nil && denied != nil && int(denied.GetStatus().GetCode()) == 401)
	got := ""
	for _, hv := range denied.GetHeaders() {
		if hv.GetHeader().GetKey() == "WWW-Authenticate" || hv.GetHeader().GetKey() == "Www-Authenticate" {
			got = hv.GetHeader().GetValue()
		}
	}
	verifapi.Region("KF-C12-www-authenticate-header-never-sent", true)
	verifapi.Assert("C12/challenge/envoy/www-authenticate-header-names-the-realm", got == "Basic realm="+realm)
}
