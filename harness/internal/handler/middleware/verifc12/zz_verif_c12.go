//go:build verif

// Package verifc12 holds the C12 harness: one symbolic error value is pushed
// through the real HTTP error handler and the real gRPC error interceptor.
package verifc12

import (
	"context"
	"errors"
	"fmt"
	"net/http"
	"strings"

	envoy_core "github.com/envoyproxy/go-control-plane/envoy/config/core/v3"
	envoy_auth "github.com/envoyproxy/go-control-plane/envoy/service/auth/v3"

	grpceh "github.com/dadrus/heimdall/internal/handler/middleware/grpc/errorhandler"
	httpeh "github.com/dadrus/heimdall/internal/handler/middleware/http/errorhandler"
	"github.com/dadrus/heimdall/internal/heimdall"
	"github.com/dadrus/heimdall/internal/verifapi"
	"github.com/dadrus/heimdall/internal/x/errorchain"
)

// kinds in the documented priority order of classification
const (
	kAuthn = iota
	kAuthz
	kComm
	kPrecond
	kNoRule
	kRedirect
	kInternal
	nKinds
)

type leafInfo struct {
	class        int // one of the kinds above
	redirectCode int // for kRedirect
	redirectTo   string
}

var errForeign = errors.New("some foreign error")

type foreignErr struct{ msg string }

func (e foreignErr) Error() string { return e.msg }

// genLeaf returns one error leaf together with its documented class.
func genLeaf(name string, leaves *[]leafInfo) error {
	switch verifapi.NondetChoice(name+".leaf", verifapi.Bound("leaf_kinds", 11)) {
	case 0:
		*leaves = append(*leaves, leafInfo{class: kAuthn})
		return heimdall.ErrAuthentication
	case 1:
		*leaves = append(*leaves, leafInfo{class: kAuthz})
		return heimdall.ErrAuthorization
	case 2:
		*leaves = append(*leaves, leafInfo{class: kComm})
		return heimdall.ErrCommunication
	case 3:
		*leaves = append(*leaves, leafInfo{class: kPrecond})
		return heimdall.ErrArgument
	case 4:
		*leaves = append(*leaves, leafInfo{class: kNoRule})
		return heimdall.ErrNoRuleFound
	case 5:
		*leaves = append(*leaves, leafInfo{class: kInternal})
		return heimdall.ErrInternal
	case 6:
		code := int(verifapi.NondetIntRange(name+".redirect_code", 300, 399))
		to := "https://" + verifapi.NondetStringN(name+".redirect_to", 2)
		*leaves = append(*leaves, leafInfo{class: kRedirect, redirectCode: code, redirectTo: to})
		return &heimdall.RedirectError{Message: "redirect", Code: code, RedirectTo: to}
	case 7:
		*leaves = append(*leaves, leafInfo{class: kComm})
		return heimdall.ErrCommunicationTimeout
	case 8:
		*leaves = append(*leaves, leafInfo{class: kInternal})
		return heimdall.ErrConfiguration
	case 9:
		*leaves = append(*leaves, leafInfo{class: kInternal})
		return errForeign
	default:
		*leaves = append(*leaves, leafInfo{class: kInternal})
		return foreignErr{msg: "foreign value error"}
	}
}

// genError builds an arbitrary error of nesting depth <= depth.
func genError(name string, depth int, leaves *[]leafInfo) error {
	shapes := 1
	if depth > 0 {
		shapes = verifapi.Bound("shapes", 5)
	}
	switch verifapi.NondetChoice(name+".shape", shapes) {
	case 0:
		return genLeaf(name, leaves)
	case 1: // error chain with one element and a message
		return errorchain.NewWithMessage(genError(name+".0", depth-1, leaves), "some message")
	case 2: // error chain of two elements
		return errorchain.New(genError(name+".0", depth-1, leaves)).CausedBy(genError(name+".1", depth-1, leaves))
	case 3: // fmt wrapper
		return fmt.Errorf("wrapped: %w", genError(name+".0", depth-1, leaves))
	case 4: // errors.Join
		return errors.Join(genError(name+".0", depth-1, leaves), genError(name+".1", depth-1, leaves))
	default: // error chain of three elements with context
		return errorchain.NewWithMessage(genError(name+".0", depth-1, leaves), "m").
			CausedBy(genError(name+".1", depth-1, leaves)).
			CausedBy(genError(name+".2", depth-1, leaves)).WithErrorContext("ctx")
	}
}

type recorder struct {
	hdr     http.Header
	status  int
	written int
	body    []byte
}

func (r *recorder) Header() http.Header { return r.hdr }
func (r *recorder) Write(b []byte) (int, error) {
	if r.written == 0 {
		r.WriteHeader(http.StatusOK)
	}
	r.body = append(r.body, b...)
	return len(b), nil
}
func (r *recorder) WriteHeader(code int) {
	if r.written == 0 {
		r.status = code
	}
	r.written++
}

// overrides returns the configured status overrides: none, all (arbitrary
// codes), or exactly one (arbitrary code). Codes are symbolic.
func overrides() [nKinds]int {
	var ov [nKinds]int
	names := [nKinds]string{kAuthn: "ov.authn", kAuthz: "ov.authz", kComm: "ov.comm", kPrecond: "ov.precond", kNoRule: "ov.norule", kInternal: "ov.internal"}
	mode := verifapi.NondetChoice("ov.mode", 8)
	for k := 0; k < nKinds; k++ {
		if k == kRedirect {
			continue
		}
		idx := k
		if k == kInternal {
			idx = 5
		}
		if mode == 1 || mode == 2+idx {
			// the configuration schema restricts overrides to 4xx/5xx codes
			ov[k] = int(verifapi.NondetIntRange(names[k]+".code", 400, 599))
		}
	}
	return ov
}

var accepts = []string{"", "application/json", "text/html", "text/plain;q=0.9, application/xml", "image/png", "*/*", "text/plain"}

func VerifC12Translate() {
	depth := verifapi.Bound("depth", 1)
	var leaves []leafInfo
	err := genError("e", depth, &leaves)

	ov := overrides()
	verbose := false
	accept := ""
	if va := verifapi.NondetChoice("verbose+accept", 1+len(accepts)); va > 0 {
		verbose = true
		accept = accepts[va-1]
	}

	// ---- specification (docs: operations/... error codes; property C12) ----
	defaults := [nKinds]int{kAuthn: 401, kAuthz: 403, kComm: 502, kPrecond: 400, kNoRule: 404, kInternal: 500}
	class := kInternal
	var redirect leafInfo
	for k := kAuthn; k <= kRedirect; k++ {
		found := false
		for _, l := range leaves {
			if l.class == k {
				if !found && k == kRedirect {
					redirect = l
				}
				found = true
			}
		}
		if found {
			class = k
			break
		}
	}
	want := 0
	switch {
	case class == kRedirect:
		want = redirect.redirectCode
	case ov[class] != 0:
		want = ov[class]
	default:
		want = defaults[class]
	}

	// ---- HTTP ----
	h := httpeh.New(
		httpeh.WithAuthenticationErrorCode(ov[kAuthn]), httpeh.WithAuthorizationErrorCode(ov[kAuthz]),
		httpeh.WithCommunicationErrorCode(ov[kComm]), httpeh.WithPreconditionErrorCode(ov[kPrecond]),
		httpeh.WithNoRuleErrorCode(ov[kNoRule]), httpeh.WithInternalServerErrorCode(ov[kInternal]),
		httpeh.WithVerboseErrors(verbose))
	rec := &recorder{hdr: http.Header{}}
	req := &http.Request{Header: http.Header{}}
	if accept != "" {
		req.Header.Set("Accept", accept)
	}
	h.HandleError(rec, req, err)

	// ---- gRPC ----
	ic := grpceh.New(
		grpceh.WithAuthenticationErrorCode(ov[kAuthn]), grpceh.WithAuthorizationErrorCode(ov[kAuthz]),
		grpceh.WithCommunicationErrorCode(ov[kComm]), grpceh.WithPreconditionErrorCode(ov[kPrecond]),
		grpceh.WithNoRuleErrorCode(ov[kNoRule]), grpceh.WithInternalServerErrorCode(ov[kInternal]),
		grpceh.WithVerboseErrors(verbose))
	creq := &envoy_auth.CheckRequest{Attributes: &envoy_auth.AttributeContext{Request: &envoy_auth.AttributeContext_Request{
		Http: &envoy_auth.AttributeContext_HttpRequest{Headers: map[string]string{}}}}}
	if accept != "" {
		creq.Attributes.Request.Http.Headers["accept"] = accept
	}
	resp, gerr := ic(context.Background(), creq, nil, func(context.Context, any) (any, error) { return nil, err })
	cr, isCheckResponse := resp.(*envoy_auth.CheckResponse)
	verifapi.Assert("C12/grpc-returns-check-response", gerr == nil && isCheckResponse && cr != nil)
	denied := cr.GetDeniedResponse()
	gstatus := int(denied.GetStatus().GetCode())

	switch class {
	case kAuthn:
		verifapi.Cover("authentication")
	case kAuthz:
		verifapi.Cover("authorization")
	case kComm:
		verifapi.Cover("communication")
	case kPrecond:
		verifapi.Cover("precondition")
	case kNoRule:
		verifapi.Cover("no-rule")
	case kRedirect:
		verifapi.Cover("redirect")
	default:
		verifapi.Cover("internal")
	}

	verifapi.Assert("C12/http-status-of-kind", rec.status == want)
	verifapi.Assert("C12/grpc-status-of-kind", gstatus == want)
	verifapi.Assert("C12/http-equals-grpc", gstatus == rec.status)
	verifapi.Assert("C12/never-success-http", rec.status < 200 || rec.status >= 300)
	verifapi.Assert("C12/never-success-grpc", denied != nil && cr.GetOkResponse() == nil && (gstatus < 200 || gstatus >= 300))
	verifapi.Assert("C12/written-once", rec.written == 1)
	if class == kRedirect {
		verifapi.Assert("C12/http-location", rec.hdr.Get("Location") == redirect.redirectTo)
		var loc *envoy_core.HeaderValue
		for _, hv := range denied.GetHeaders() {
			if hv.GetHeader().GetKey() == "Location" {
				loc = hv.GetHeader()
			}
		}
		verifapi.Assert("C12/grpc-location", loc != nil && loc.GetValue() == redirect.redirectTo)
	}
	if !verbose {
		verifapi.Cover("terse")
		verifapi.Assert("C12/no-body-unless-verbose-http", len(rec.body) == 0)
		verifapi.Assert("C12/no-body-unless-verbose-grpc", len(denied.GetBody()) == 0)
	} else {
		verifapi.Cover("verbose")
		// the body is labelled with the negotiated content type, identically by both translators
		if class != kRedirect && len(rec.body) != 0 {
			gct := ""
			for _, hv := range denied.GetHeaders() {
				if strings.EqualFold(hv.GetHeader().GetKey(), "Content-Type") {
					gct = hv.GetHeader().GetValue()
				}
			}
			// (for an absent Accept header or */* any supported type is a correct answer; the two translators
			// prefer different ones, which the property does not forbid)
			if accept != "" && accept != "*/*" && accept != "image/png" {
				verifapi.Assert("C12/verbose-content-type-http-equals-grpc", rec.hdr.Get("Content-Type") == gct)
			}
			if accept == "text/plain" {
				verifapi.Assert("C12/verbose-plain-text-body-is-labelled-text-plain", strings.HasPrefix(rec.hdr.Get("Content-Type"), "text/plain"))
			}
		}
	}
}
