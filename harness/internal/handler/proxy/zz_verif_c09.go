//go:build verif

package proxy

import (
	"context"
	"net/http"
	"net/http/httputil"
	"net/url"
	"sort"
	"strings"

	"github.com/rs/zerolog"

	"github.com/dadrus/heimdall/internal/handler/middleware/http/trustedproxy"
	"github.com/dadrus/heimdall/internal/handler/requestcontext"
	"github.com/dadrus/heimdall/internal/verifapi"
)

// ---------------------------------------------------------------------------
// C09: trusted-proxy middleware -> request context (URL / method / client IPs extraction) ->
// proxy rewrite of the outgoing request. Reference: operations/security.adoc.
// ---------------------------------------------------------------------------

type vProxyEntry struct {
	text string
	ip   []byte // address (4 or 16 bytes); nil = invalid entry
	bits int    // prefix length; -1 = single address
}

var vTrustedProxyLists = [][]vProxyEntry{
	{},
	{{"192.0.2.7", []byte{192, 0, 2, 7}, -1}},
	{{"10.0.0.0/8", []byte{10, 0, 0, 0}, 8}},
	{{"10.1.2.0/24", []byte{10, 1, 2, 0}, 24}, {"192.0.2.7", []byte{192, 0, 2, 7}, -1}},
	{{"2001:db8::10", []byte{0x20, 0x01, 0x0d, 0xb8, 0, 0, 0, 0, 0, 0, 0, 0, 0, 0, 0, 0x10}, -1}},
	{{"2001:db8::/32", []byte{0x20, 0x01, 0x0d, 0xb8, 0, 0, 0, 0, 0, 0, 0, 0, 0, 0, 0, 0}, 32}},
	{{"not-an-address", nil, -1}, {"192.0.2.0/33", nil, -1}},
	{{"0.0.0.0/0", []byte{0, 0, 0, 0}, 0}},
}

// vListed is plain set / prefix membership of the peer in the configured list.
func vListed(list []vProxyEntry, peer []byte) bool {
	for _, e := range list {
		if e.ip == nil || len(e.ip) != len(peer) {
			continue
		}
		bits := e.bits
		if bits < 0 {
			bits = 8 * len(e.ip)
		}
		match := true
		for i := 0; i < len(peer) && match; i++ {
			var mask byte
			switch {
			case bits >= 8*(i+1):
				mask = 0xff
			case bits > 8*i:
				mask = byte(0xff << uint(8-(bits-8*i)))
			}
			if peer[i]&mask != e.ip[i]&mask {
				match = false
			}
		}
		if match {
			return true
		}
	}
	return false
}

var vForwardedHeaders = []string{"Forwarded", "X-Forwarded-For", "X-Forwarded-Proto", "X-Forwarded-Host", "X-Forwarded-Uri", "X-Forwarded-Path", "X-Forwarded-Method"}

type vView struct {
	method, scheme, host, path, rawPath, query string
	clientIPs                                  string
	upstream                                   string // outgoing headers, sorted
}

// vServe pushes a request through the trusted-proxy middleware, creates the request context and applies
// the proxy's rewrite of the outgoing request.
func vServe(proxies []string, remoteAddr string, hdr http.Header) vView {
	var view vView
	h := trustedproxy.New(zerolog.Nop(), proxies...)(http.HandlerFunc(func(_ http.ResponseWriter, req *http.Request) {
		rc := &requestContext{RequestContext: requestcontext.New(req), req: req}
		r := rc.Request()
		view.method, view.scheme, view.host = r.Method, r.URL.Scheme, r.URL.Host
		view.path, view.rawPath, view.query = r.URL.Path, r.URL.RawPath, r.URL.RawQuery
		view.clientIPs = strings.Join(r.ClientIPAddresses, "|")
		rc.AddHeaderForUpstream("X-Pipeline", "p")
		out := req.Clone(context.Background())
		rc.rewriteRequest(&url.URL{Scheme: "http", Host: "upstream:8080", Path: "/up"})(&httputil.ProxyRequest{In: req, Out: out})
		var lines []string
		for k, vs := range out.Header {
			lines = append(lines, k+"="+strings.Join(vs, ","))
		}
		sort.Strings(lines)
		view.upstream = out.Method + " " + out.Host + " " + strings.Join(lines, ";")
	}))
	req := &http.Request{Method: "GET", URL: &url.URL{Path: "/real/path", RawQuery: "a=b"}, Host: "real.host",
		Proto: "HTTP/1.1", ProtoMajor: 1, ProtoMinor: 1, Header: hdr, RemoteAddr: remoteAddr}
	h.ServeHTTP(nil, req)
	return view
}

func vProxyTexts(list []vProxyEntry) []string {
	var r []string
	for _, e := range list {
		r = append(r, e.text)
	}
	return r
}

// VerifC09Untrusted: for a peer that is not listed, the forwarded headers have no effect at all:
// the request view and the outgoing request equal those of the same request without such headers.
func VerifC09Untrusted() {
	li := verifapi.NondetChoice("trusted_proxies", len(vTrustedProxyLists))
	list := vTrustedProxyLists[li]
	// peers of the address family of the list's entries; both families for the empty / invalid lists
	v6 := li == 4 || li == 5
	if li == 0 || li == 6 {
		v6 = verifapi.NondetBool("peer.ipv6")
	}
	// peers whose address is not an IP (unix socket, zoned link-local address): never listed
	if k := verifapi.NondetChoice("peer.kind", 4); k > 0 {
		addr := []string{"", "@", "", "[fe80::1%eth0]:4711"}[k]
		verifapi.Cover("peer-without-ip-address")
		vCheckUntrusted(list, addr)
		return
	}
	addr, octets := verifapi.NondetPeer("peer", v6)
	if v6 {
		// an IPv4-mapped IPv6 address is the IPv4 peer (covered by the IPv4 case)
		mapped := octets[10] == 0xff && octets[11] == 0xff
		for i := 0; i < 10; i++ {
			mapped = mapped && octets[i] == 0
		}
		verifapi.Assume(!mapped)
	}
	if vListed(list, octets) {
		verifapi.Cover("peer-listed")
		return
	}
	verifapi.Cover("peer-not-listed")
	vCheckUntrusted(list, addr)
}

func vCheckUntrusted(list []vProxyEntry, addr string) {
	hdr := http.Header{"Accept": {"*/*"}}
	// which forwarded headers are sent: exactly one of the seven, or all of them (then possibly repeated)
	which := verifapi.NondetChoice("forwarded_headers", len(vForwardedHeaders)+2)
	for i, name := range vForwardedHeaders {
		if which == i || which >= len(vForwardedHeaders) {
			hdr[name] = []string{verifapi.NondetStringN("value:"+name, 2)}
			if which == len(vForwardedHeaders)+1 {
				hdr[name] = append(hdr[name], verifapi.NondetStringN("value2:"+name, 1))
			}
		}
	}
	got := vServe(vProxyTexts(list), addr, hdr)
	want := vServe(vProxyTexts(list), addr, http.Header{"Accept": {"*/*"}})

	verifapi.Observe("got", got.method+" "+got.scheme+" "+got.host+" "+got.clientIPs)
	verifapi.Assert("C09/untrusted/method-from-request-line", got.method == "GET")
	verifapi.Assert("C09/untrusted/scheme-host-from-connection", got.scheme == "http" && got.host == "real.host")
	verifapi.Assert("C09/untrusted/path-query-from-request-line", got.path == "/real/path" && got.query == "a=b")
	verifapi.Assert("C09/untrusted/client-ips-from-connection", got.clientIPs == want.clientIPs)
	verifapi.Assert("C09/untrusted/forwarded-headers-not-passed-on", got.upstream == want.upstream)
}

// VerifC09Trusted: for a listed peer each present header overrides exactly its component
// (security.adoc: scheme <- X-Forwarded-Proto, host <- X-Forwarded-Host, path and query <-
// X-Forwarded-Uri, method <- X-Forwarded-Method, client addresses <- Forwarded / X-Forwarded-For
// followed by the peer); absent headers fall back to the actual request.
func VerifC09Trusted() {
	// a peer inside 10.0.0.0/8 (symbolic low octets)
	addr, octets := verifapi.NondetPeer("peer", false)
	verifapi.Assume(octets[0] == 10)
	hdr := http.Header{}
	has := func(name, value string) bool {
		if verifapi.NondetBool("present:" + name) {
			hdr[name] = []string{value}
			return true
		}
		return false
	}
	hasMethod := has("X-Forwarded-Method", "POST")
	hasProto := has("X-Forwarded-Proto", "https")
	hasHost := has("X-Forwarded-Host", "fwd.host:8443")
	// the forwarded URI carries path and query, only a path, or only a query: each part that is absent falls
	// back to the actual request
	uriKind := verifapi.NondetChoice("X-Forwarded-Uri.parts", 3)
	hasURI := has("X-Forwarded-Uri", []string{"/fwd/p%20q?x=y", "/fwd/p%20q", "?x=y"}[uriKind])
	hasPath := has("X-Forwarded-Path", "/ignored")
	hasFor := has("X-Forwarded-For", "198.51.100.1, 198.51.100.2")
	hasForwarded := has("Forwarded", "for=203.0.113.9;proto=https, for=203.0.113.10")
	_ = hasPath

	got := vServe([]string{"10.0.0.0/8"}, addr, hdr)
	verifapi.Cover("trusted")
	want := func(present bool, fromHeader, actual string) string {
		if present {
			return fromHeader
		}
		return actual
	}
	verifapi.Assert("C09/trusted/method", got.method == want(hasMethod, "POST", "GET"))
	verifapi.Assert("C09/trusted/scheme", got.scheme == want(hasProto, "https", "http"))
	verifapi.Assert("C09/trusted/host", got.host == want(hasHost, "fwd.host:8443", "real.host"))
	verifapi.Assert("C09/trusted/path", got.path == want(hasURI && uriKind != 2, "/fwd/p q", "/real/path"))
	verifapi.Assert("C09/trusted/query", got.query == want(hasURI && uriKind != 1, "x=y", "a=b"))
	peer := strings.TrimSuffix(addr, ":4711")
	ips := peer
	switch {
	case hasForwarded:
		ips = "203.0.113.9|203.0.113.10|" + peer
	case hasFor:
		ips = "198.51.100.1|198.51.100.2|" + peer
	}
	verifapi.Assert("C09/trusted/client-ips", got.clientIPs == ips)
	verifapi.Assert("C09/trusted/method-uri-path-headers-not-passed-upstream",
		!strings.Contains(got.upstream, "X-Forwarded-Method") && !strings.Contains(got.upstream, "X-Forwarded-Uri") && !strings.Contains(got.upstream, "X-Forwarded-Path"))
}
