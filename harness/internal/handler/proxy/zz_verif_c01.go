//go:build verif

package proxy

import (
	"net/http"
	"net/http/httptest"
	"net/url"
	"strings"

	"github.com/dadrus/heimdall/internal/config"
	"github.com/dadrus/heimdall/internal/handler/middleware/http/errorhandler"
	"github.com/dadrus/heimdall/internal/handler/middleware/http/recovery"
	"github.com/dadrus/heimdall/internal/handler/service"
	"github.com/dadrus/heimdall/internal/rules"
	"github.com/dadrus/heimdall/internal/verifapi"
)

type vRecorder struct {
	hdr     http.Header
	status  int
	written int
}

func (r *vRecorder) Header() http.Header { return r.hdr }
func (r *vRecorder) Write(b []byte) (int, error) {
	if r.written == 0 {
		r.WriteHeader(http.StatusOK)
	}
	return len(b), nil
}
func (r *vRecorder) WriteHeader(code int) {
	if r.written == 0 {
		r.status = code
	}
	r.written++
}

// VerifC01Proxy: the proxy entry point forwards (reaches the reverse proxy / the upstream
// test server) only if the documented pipeline outcome is "ok".
func VerifC01Proxy() {
	// natively a real upstream counts the requests that reach it; in the engine the
	// reverse proxy is the boundary and its stub counts.
	if !verifapi.Symbolic() {
		srv := httptest.NewServer(http.HandlerFunc(func(rw http.ResponseWriter, _ *http.Request) {
			verifapi.Mark("upstream-hit")
			rw.WriteHeader(http.StatusOK)
		}))
		defer srv.Close()
		rules.VerifUpstreamHost = strings.TrimPrefix(srv.URL, "http://")
	}
	withBackend := verifapi.NondetBool("rule.has_backend")
	s := rules.VerifC01Build(withBackend)

	eh := errorhandler.New()
	h := recovery.New(eh)(service.NewHandler(newContextFactory(config.ServiceConfig{}, nil), s.Executor, eh))

	rec := &vRecorder{hdr: http.Header{}}
	req := &http.Request{Method: http.MethodGet, URL: &url.URL{Scheme: "http", Host: "svc.verif", Path: "/some/path"},
		Proto: "HTTP/1.1", ProtoMajor: 1, ProtoMinor: 1,
		Header: http.Header{}, Host: "svc.verif", RemoteAddr: "192.0.2.1:4711"}
	h.ServeHTTP(rec, req)

	forwarded := verifapi.Marked("upstream-hit") > 0
	specOK := s.SpecPipelineOK() && withBackend

	if specOK {
		verifapi.Cover("pipeline-ok")
	} else {
		verifapi.Cover("pipeline-failed")
	}
	if s.Plan.PanicSeen {
		verifapi.Cover("panic")
	}
	if forwarded {
		verifapi.Cover("forwarded")
	}
	verifapi.Assert("C01/proxy/forwarded-only-if-pipeline-ok", !forwarded || specOK)
	verifapi.Assert("C01/proxy/forwarded-at-most-once", verifapi.Marked("upstream-hit") <= 1)
	verifapi.Assert("C01/proxy/failed-pipeline-never-2xx", specOK || rec.status < 200 || rec.status >= 300)
	verifapi.Assert("C01/proxy/ok-pipeline-is-forwarded", !specOK || forwarded)
}
