//go:build verif

package proxy

import (
	"context"
	"net/http"
	"net/http/httputil"
	"net/url"
	"strings"

	"github.com/rs/zerolog"

	"github.com/dadrus/heimdall/internal/handler/middleware/http/trustedproxy"
	"github.com/dadrus/heimdall/internal/handler/requestcontext"
	config2 "github.com/dadrus/heimdall/internal/rules/config"
	"github.com/dadrus/heimdall/internal/verifapi"
)

// ---------------------------------------------------------------------------
// C15: upstream URL (forward_to.host + rewrite) and the outgoing request of proxy mode.
// ---------------------------------------------------------------------------

// path segments as sent by the client: plain symbolic letters, a literal '+', percent-encoded
// octets (reserved, unreserved, the percent sign, a slash), either hex case
var vC15Segments = []string{"", "%41", "a+b", "%2F", "x%2fy", "%25", "%5b%5D", "p%20q"}

func vC15Segment(name string) string {
	k := verifapi.NondetChoice(name, len(vC15Segments))
	if k == 0 {
		return string([]byte{verifapi.NondetByteRange(name+".a", 'a', 'z'), verifapi.NondetByteRange(name+".b", 'a', 'z')})
	}
	return vC15Segments[k]
}

// VerifC15URL: the upstream URL is forward_to.host with the original scheme, path and query changed
// only by the configured rewrite; the percent-encoding of the path is preserved exactly.
func VerifC15URL() {
	rawPath := "/api/" + vC15Segment("seg1") + "/" + vC15Segment("seg2")
	rawQuery := []string{"", "x=1&y=2", "y=2&x=1&x=3", "q=a%20b&x=1", "%78=9&y=2"}[verifapi.NondetChoice("query", 5)]
	in, err := url.ParseRequestURI(rawPath + "?" + rawQuery)
	if err != nil {
		verifapi.Cover("unparsable")
		return
	}
	in.Scheme, in.Host = []string{"http", "https"}[verifapi.NondetChoice("scheme", 2)], "heimdall.local"

	b := &config2.Backend{Host: "upstream:8080"}
	strip, add, scheme := "", "", ""
	removeX := false
	if verifapi.NondetBool("rewrite.configured") {
		strip = []string{"", "/api", "/ap", "/other"}[verifapi.NondetChoice("rewrite.strip_path_prefix", 4)]
		add = []string{"", "/v2", "/v%202"}[verifapi.NondetChoice("rewrite.add_path_prefix", 3)]
		scheme = []string{"", "http", "https"}[verifapi.NondetChoice("rewrite.scheme", 3)]
		removeX = verifapi.NondetBool("rewrite.strip_query_parameter_x")
		b.URLRewriter = &config2.URLRewriter{Scheme: scheme, PathPrefixToCut: config2.PrefixCutter(strip), PathPrefixToAdd: config2.PrefixAdder(add)}
		if removeX {
			b.URLRewriter.QueryParamsToRemove = config2.QueryParamsRemover{"x"}
		}
		verifapi.Cover("with-rewrite")
	} else {
		verifapi.Cover("without-rewrite")
	}
	out := b.CreateURL(in)

	wantPath := add + strings.TrimPrefix(rawPath, strip)
	wantScheme := in.Scheme
	if scheme != "" {
		wantScheme = scheme
	}
	verifapi.Assert("C15/url/host-is-forward_to-host", out.Host == "upstream:8080")
	verifapi.Assert("C15/url/scheme", out.Scheme == wantScheme)
	verifapi.Assert("C15/url/path-encoding-preserved", out.EscapedPath() == wantPath)
	if !removeX {
		verifapi.Assert("C15/url/query-untouched", out.RawQuery == rawQuery)
	} else {
		got, _ := url.ParseQuery(out.RawQuery)
		orig, _ := url.ParseQuery(rawQuery)
		_, hasX := got["x"]
		same := !hasX && len(got) == len(orig)-map[bool]int{true: 1, false: 0}[len(orig["x"]) > 0]
		for k, v := range got {
			same = same && strings.Join(v, ",") == strings.Join(orig[k], ",")
		}
		verifapi.Assert("C15/url/only-configured-query-parameter-removed", same)
	}
}

// VerifC15Headers: every pipeline header replaces same-named client headers, the client cannot pass
// X-Forwarded-Method/-Uri/-Path through, X-Forwarded-For or Forwarded is extended by the peer, method untouched.
func VerifC15Headers() {
	hdr := http.Header{}
	clientHasRole := verifapi.NondetBool("client.sends.X-User-Role")
	if clientHasRole {
		hdr["X-User-Role"] = []string{"admin", "superuser"}
	}
	for _, h := range []string{"X-Forwarded-Method", "X-Forwarded-Uri", "X-Forwarded-Path"} {
		if verifapi.NondetBool("client.sends." + h) {
			hdr[h] = []string{"evil"}
		}
	}
	fwdFor, fwd, fwdProto := verifapi.NondetBool("client.sends.X-Forwarded-For"), verifapi.NondetBool("client.sends.Forwarded"), verifapi.NondetBool("client.sends.X-Forwarded-Proto")
	if fwdFor {
		hdr["X-Forwarded-For"] = []string{"198.51.100.1"}
	}
	if fwd {
		hdr["Forwarded"] = []string{"for=203.0.113.9"}
	}
	if fwdProto {
		hdr["X-Forwarded-Proto"] = []string{"https"}
	}
	method := []string{"GET", "POST", "DELETE"}[verifapi.NondetChoice("method", 3)]
	req := &http.Request{Method: method, URL: &url.URL{Path: "/p"}, Host: "heimdall.local", Proto: "HTTP/1.1", ProtoMajor: 1, ProtoMinor: 1,
		Header: hdr, RemoteAddr: "192.0.2.55:4711"}
	// pipeline headers (the role header possibly with an empty value, in a non-canonical casing)
	role := verifapi.NondetString("pipeline.X-User-Role", 1)
	pipelineSetsRole := verifapi.NondetBool("pipeline.sets.X-User-Role")
	var out *http.Request
	// the client is not a trusted proxy: the first middleware of the proxy service strips its forwarded headers
	trusted := verifapi.NondetBool("peer.is_trusted_proxy")
	var proxies []string
	if trusted {
		proxies = []string{"192.0.2.55"}
	}
	trustedproxy.New(zerolog.Nop(), proxies...)(http.HandlerFunc(func(_ http.ResponseWriter, req *http.Request) {
		rc := &requestContext{RequestContext: requestcontext.New(req), req: req}
		if pipelineSetsRole {
			rc.AddHeaderForUpstream("x-user-role", role)
		}
		rc.AddHeaderForUpstream("X-Subject", "alice")
		out = req.Clone(context.Background())
		rc.rewriteRequest(&url.URL{Scheme: "http", Host: "upstream:8080", Path: "/p"})(&httputil.ProxyRequest{In: req, Out: out})
	})).ServeHTTP(nil, req)

	verifapi.Cover("rewritten")
	if !trusted || len(hdr["X-Forwarded-Method"]) == 0 {
		verifapi.Assert("C15/headers/method-untouched", out.Method == method)
	}
	verifapi.Assert("C15/headers/host-is-upstream", out.Host == "upstream:8080")
	verifapi.Assert("C15/headers/pipeline-header-present", out.Header.Get("X-Subject") == "alice")
	if pipelineSetsRole {
		vals := out.Header["X-User-Role"]
		verifapi.Assert("C15/headers/pipeline-header-replaces-client-header", len(vals) == 1 && vals[0] == role)
	}
	for _, h := range []string{"X-Forwarded-Method", "X-Forwarded-Uri", "X-Forwarded-Path"} {
		verifapi.Assert("C15/headers/client-cannot-pass-"+h, len(out.Header[h]) == 0)
	}
	if !trusted {
		// the untrusted client's own forwarded headers were dropped: the peer is the only hop
		verifapi.Assert("C15/headers/forwarded-names-the-peer", out.Header.Get("Forwarded") == "for=192.0.2.55;host=heimdall.local;proto=http" &&
			len(out.Header["X-Forwarded-For"]) == 0)
	} else if fwdFor || fwdProto {
		want := "192.0.2.55"
		if fwdFor {
			want = "198.51.100.1, 192.0.2.55"
		}
		verifapi.Assert("C15/headers/x-forwarded-for-extended-by-peer", out.Header.Get("X-Forwarded-For") == want)
	} else {
		got := out.Header.Get("Forwarded")
		verifapi.Assert("C15/headers/forwarded-extended-by-peer", strings.HasSuffix(got, "for=192.0.2.55;host=heimdall.local;proto=http") &&
			(!fwd || strings.HasPrefix(got, "for=203.0.113.9, ")))
	}
}
