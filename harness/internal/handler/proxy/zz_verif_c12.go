//go:build verif

package proxy

import (
	"net/http"
	"net/url"

	"github.com/dadrus/heimdall/internal/config"
	"github.com/dadrus/heimdall/internal/handler/middleware/http/errorhandler"
	"github.com/dadrus/heimdall/internal/handler/service"
	"github.com/dadrus/heimdall/internal/heimdall"
	"github.com/dadrus/heimdall/internal/rules/mechanisms/errorhandlers"
	"github.com/dadrus/heimdall/internal/rules/rule"
	"github.com/dadrus/heimdall/internal/verifapi"
)

type vChallengeExecutor struct{ eh errorhandlers.ErrorHandler }

func (e vChallengeExecutor) Execute(ctx heimdall.Context) (rule.Backend, error) {
	return nil, e.eh.Execute(ctx, heimdall.ErrAuthentication)
}

// VerifC12ChallengeProxy: the www-authenticate challenge through the proxy service.
func VerifC12ChallengeProxy() {
	realm := "realm-" + string([]byte{verifapi.NondetByteRange("realm", 'a', 'z')})
	eh := errorhandler.New()
	h := service.NewHandler(newContextFactory(config.ServiceConfig{}, nil), vChallengeExecutor{eh: errorhandlers.VerifNewWWWAuthenticate(realm)}, eh)
	rec := &vRecorder{hdr: http.Header{}}
	req := &http.Request{Method: http.MethodGet, URL: &url.URL{Scheme: "http", Host: "svc.verif", Path: "/some/path"},
		Proto: "HTTP/1.1", ProtoMajor: 1, ProtoMinor: 1, Header: http.Header{}, Host: "svc.verif", RemoteAddr: "192.0.2.1:4711"}
	h.ServeHTTP(rec, req)
	verifapi.Cover("challenged")
	verifapi.Assert("C12/challenge/proxy/status-401", rec.status == http.StatusUnauthorized)
	verifapi.Assert("C12/challenge/proxy/not-forwarded", verifapi.Marked("upstream-hit") == 0)
	verifapi.Region("KF-C12-www-authenticate-header-never-sent", true)
	verifapi.Assert("C12/challenge/proxy/www-authenticate-header-names-the-realm", rec.hdr.Get("WWW-Authenticate") == "Basic realm="+realm)
}
