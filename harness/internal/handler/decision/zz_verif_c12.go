//go:build verif

package decision

import (
	"net/http"
	"net/url"

	"github.com/dadrus/heimdall/internal/handler/middleware/http/errorhandler"
	"github.com/dadrus/heimdall/internal/handler/service"
	"github.com/dadrus/heimdall/internal/heimdall"
	"github.com/dadrus/heimdall/internal/rules/mechanisms/errorhandlers"
	"github.com/dadrus/heimdall/internal/rules/rule"
	"github.com/dadrus/heimdall/internal/verifapi"
)

// vChallengeExecutor is a rule whose authenticator fails and whose error pipeline selects the real
// www_authenticate error handler (what ruleImpl.Execute does then: the handler has dealt with the
// error, the rule returns without one).
type vChallengeExecutor struct{ eh errorhandlers.ErrorHandler }

func (e vChallengeExecutor) Execute(ctx heimdall.Context) (rule.Backend, error) {
	return nil, e.eh.Execute(ctx, heimdall.ErrAuthentication)
}

// VerifC12Challenge: a www-authenticate challenge is answered with 401 and a WWW-Authenticate header
// naming the configured realm (decision service: service handler -> Finalize -> HTTP error handler).
func VerifC12Challenge() {
	realm := "realm-" + string([]byte{verifapi.NondetByteRange("realm", 'a', 'z')})
	eh := errorhandler.New()
	h := service.NewHandler(newContextFactory(http.StatusOK), vChallengeExecutor{eh: errorhandlers.VerifNewWWWAuthenticate(realm)}, eh)
	rec := &vRecorder{hdr: http.Header{}}
	req := &http.Request{Method: http.MethodGet, URL: &url.URL{Scheme: "http", Host: "svc.verif", Path: "/some/path"},
		Header: http.Header{}, Host: "svc.verif", RemoteAddr: "192.0.2.1:4711"}
	h.ServeHTTP(rec, req)
	verifapi.Cover("challenged")
	verifapi.Assert("C12/challenge/decision/status-401", rec.status == http.StatusUnauthorized)
	verifapi.Region("KF-C12-www-authenticate-header-never-sent", true)
	verifapi.Assert("C12/challenge/decision/www-authenticate-header-names-the-realm", rec.hdr.Get("WWW-Authenticate") == "Basic realm="+realm)
}
