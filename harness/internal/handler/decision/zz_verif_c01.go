//go:build verif

package decision

import (
	"net/http"
	"net/url"

	"github.com/dadrus/heimdall/internal/handler/middleware/http/errorhandler"
	"github.com/dadrus/heimdall/internal/handler/middleware/http/recovery"
	"github.com/dadrus/heimdall/internal/handler/service"
	"github.com/dadrus/heimdall/internal/rules"
	"github.com/dadrus/heimdall/internal/verifapi"
)

type vRecorder struct {
	hdr     http.Header
	status  int
	written int
}

func (r *vRecorder) Header() http.Header { return r.hdr }
func (r *vRecorder) Write(b []byte) (int, error) {
	if r.written == 0 {
		r.WriteHeader(http.StatusOK)
	}
	return len(b), nil
}
func (r *vRecorder) WriteHeader(code int) {
	if r.written == 0 {
		r.status = code
	}
	r.written++
}

// VerifC01Decision: recovery -> service handler -> real rule executor / repository / rule
// implementation / composites / conditionals -> decision Finalize -> HTTP error handler.
func VerifC01Decision() {
	s := rules.VerifC01Build(false)
	const accepted = http.StatusAccepted // configured "accepted" status of the decision service

	eh := errorhandler.New()
	h := recovery.New(eh)(service.NewHandler(newContextFactory(accepted), s.Executor, eh))

	rec := &vRecorder{hdr: http.Header{}}
	req := &http.Request{Method: http.MethodGet, URL: &url.URL{Scheme: "http", Host: "svc.verif", Path: "/some/path"},
		Header: http.Header{}, Host: "svc.verif", RemoteAddr: "192.0.2.1:4711"}
	h.ServeHTTP(rec, req)

	verifapi.Observe("status", rec.status)
	verifapi.Observe("executed", len(s.Plan.Executed))
	positive := rec.status == accepted
	specOK := s.SpecPipelineOK()

	if specOK {
		verifapi.Cover("pipeline-ok")
	} else {
		verifapi.Cover("pipeline-failed")
	}
	if s.Plan.PanicSeen {
		verifapi.Cover("panic")
	}
	if positive {
		verifapi.Cover("positive-answer")
	}
	verifapi.Assert("C01/decision/answered-exactly-once", rec.written == 1)
	verifapi.Assert("C01/decision/positive-only-if-pipeline-ok", !positive || specOK)
	verifapi.Assert("C01/decision/failed-pipeline-never-2xx", specOK || rec.status < 200 || rec.status >= 300)
	verifapi.Assert("C01/decision/ok-pipeline-is-accepted", !specOK || positive)
}
