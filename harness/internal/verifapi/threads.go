//go:build verif

package verifapi

import (
	"fmt"
	"os"
	"strings"
	"sync"
)

// Threads. In the engine Go starts an interpreter thread and every lock acquisition of the files
// under test is a scheduling point whose successor is an explored decision. Natively there are two
// modes: when the replay file carries a schedule ("sched" entries) the same scheduling points are
// replayed deterministically (the files under test are compiled with their sync.Mutex / sync.RWMutex
// replaced by the shims below); otherwise the threads run freely as goroutines (used under -race).

type vthread struct {
	id       int
	name     string
	wake     chan struct{}
	done     bool
	waitKind string
	waitMu   *muState
}

type muState struct {
	writer  int
	readers map[int]int
}

var thr struct {
	prefix    string
	scheduled bool
	threads   []*vthread
	cur       *vthread
	wg        sync.WaitGroup
	stopped   *stop
	crashed   string
}

var apiMu sync.Mutex // protects the recording slices when threads run freely

// Concurrent starts a concurrent section; label prefix for the engine's race / deadlock verdicts.
func Concurrent(prefix string) {
	load()
	thr.prefix = prefix
	_, thr.scheduled = replay.Nondet["sched"]
	main := &vthread{id: 0, name: "main", wake: make(chan struct{}, 1)}
	thr.threads = []*vthread{main}
	thr.cur = main
}

func threadBody(t *vthread, f func()) {
	defer func() {
		if r := recover(); r != nil {
			apiMu.Lock()
			defer apiMu.Unlock()
			if s, ok := r.(stop); ok {
				if thr.stopped == nil {
					thr.stopped = &s
				}
				return
			}
			thr.crashed = fmt.Sprint(r)
		}
	}()
	f()
}

// Go runs f as a thread.
func Go(name string, f func()) {
	if thr.threads == nil {
		Concurrent("threads")
	}
	if !thr.scheduled {
		thr.wg.Add(1)
		go func() {
			defer thr.wg.Done()
			threadBody(&vthread{name: name}, f)
		}()
		return
	}
	t := &vthread{id: len(thr.threads), name: name, wake: make(chan struct{}, 1)}
	thr.threads = append(thr.threads, t)
	go func() {
		<-t.wake
		threadBody(t, f)
		t.done = true
		schedPoint()
	}()
}

func apiMuDo(f func()) {
	apiMu.Lock()
	defer apiMu.Unlock()
	f()
}

func tEnabled(t *vthread) bool {
	switch t.waitKind {
	case "Lock":
		return t.waitMu.writer < 0 && len(t.waitMu.readers) == 0
	case "RLock":
		return t.waitMu.writer < 0
	case "join":
		for _, o := range thr.threads {
			if o != t && !o.done {
				return false
			}
		}
	}
	return true
}

func finishRun(failure string) {
	// ends the native run from inside a thread (deadlock / divergence)
	for _, c := range Covered {
		fmt.Println("REPLAY-COVER:", c)
	}
	fmt.Println("REPLAY-FAILED:", failure)
	fmt.Println("--- FAIL: TestVerifReplay")
	os.Exit(1)
}

func schedPoint() {
	cur := thr.cur
	var en []*vthread
	if !cur.done && tEnabled(cur) {
		en = append(en, cur)
	}
	for _, t := range thr.threads {
		if t != cur && !t.done && tEnabled(t) {
			en = append(en, t)
		}
	}
	if len(en) == 0 {
		open := false
		for _, t := range thr.threads {
			open = open || !t.done
		}
		if !open {
			return
		}
		finishRun(thr.prefix + "/no-deadlock")
	}
	next := en[0]
	key := fresh("sched")
	if id, ok := replay.Nondet[key]; ok {
		next = nil
		for _, t := range en {
			if uint64(t.id) == id {
				next = t
			}
		}
		if next == nil {
			finishRun("replay: schedule diverged (thread " + fmt.Sprint(id) + " is not enabled natively at " + key + ")")
		}
	}
	if next == cur {
		return
	}
	thr.cur = next
	next.wake <- struct{}{}
	if cur.done {
		return
	}
	<-cur.wake
}

// Join waits for all threads started with Go.
func Join() {
	if thr.threads == nil {
		return
	}
	if !thr.scheduled {
		thr.wg.Wait()
	} else {
		cur := thr.cur
		cur.waitKind = "join"
		for !tEnabled(cur) {
			schedPoint()
		}
		cur.waitKind = ""
	}
	if thr.crashed != "" {
		panic(strings.ReplaceAll(thr.crashed, "\n", " "))
	}
	if thr.stopped != nil {
		panic(*thr.stopped)
	}
}

// Mutex replaces sync.Mutex in the native build of the files under test.
type Mutex struct {
	mu sync.Mutex
	st *muState
}

func state(p **muState) *muState {
	if *p == nil {
		*p = &muState{writer: -1, readers: map[int]int{}}
	}
	return *p
}

func acquire(st *muState, kind string) {
	t := thr.cur
	t.waitKind, t.waitMu = kind, st
	schedPoint()
	t.waitKind, t.waitMu = "", nil
	if kind == "Lock" {
		st.writer = t.id
	} else {
		st.readers[t.id]++
	}
}

func (m *Mutex) Lock() {
	if thr.scheduled {
		acquire(state(&m.st), "Lock")
		return
	}
	m.mu.Lock()
}

func (m *Mutex) Unlock() {
	if thr.scheduled {
		state(&m.st).writer = -1
		return
	}
	m.mu.Unlock()
}

func (m *Mutex) TryLock() bool {
	if thr.scheduled {
		st := state(&m.st)
		if st.writer >= 0 {
			return false
		}
		st.writer = thr.cur.id
		return true
	}
	return m.mu.TryLock()
}

// RWMutex replaces sync.RWMutex in the native build of the files under test.
type RWMutex struct {
	mu sync.RWMutex
	st *muState
}

func (m *RWMutex) Lock() {
	if thr.scheduled {
		acquire(state(&m.st), "Lock")
		return
	}
	m.mu.Lock()
}

func (m *RWMutex) Unlock() {
	if thr.scheduled {
		state(&m.st).writer = -1
		return
	}
	m.mu.Unlock()
}

func (m *RWMutex) RLock() {
	if thr.scheduled {
		acquire(state(&m.st), "RLock")
		return
	}
	m.mu.RLock()
}

func (m *RWMutex) RUnlock() {
	if thr.scheduled {
		st := state(&m.st)
		st.readers[thr.cur.id]--
		if st.readers[thr.cur.id] <= 0 {
			delete(st.readers, thr.cur.id)
		}
		return
	}
	m.mu.RUnlock()
}
