//go:build verif

// Package verifapi is the interface between verification harnesses and the
// symbolic engine. The engine intercepts every function of this package; the
// bodies below are the native implementation used when a counterexample is
// replayed against the real build (values come from the replay file).
package verifapi

import (
	"encoding/json"
	"fmt"
	"net"
	"os"
	"strings"
	"testing"
	"time"
)

type replayFile struct {
	Label  string            `json:"label"`
	Nondet map[string]uint64 `json:"nondet"`
	Bounds map[string]int    `json:"bounds"`
}

var (
	replay   replayFile
	loaded   bool
	seq      = map[string]int{}
	regions  []regionT
	Failures []string
	Knowns   []string
	Covered  []string
	Observed []string
)

type regionT struct {
	id string
	in bool
}

type stop struct{ why string }

func load() {
	if loaded {
		return
	}
	loaded = true
	replay.Nondet = map[string]uint64{}
	if p := os.Getenv("VERIF_REPLAY"); p != "" {
		data, err := os.ReadFile(p)
		if err != nil {
			panic(err)
		}
		if err := json.Unmarshal(data, &replay); err != nil {
			panic(err)
		}
	}
}

func fresh(name string) string {
	n := seq[name]
	seq[name] = n + 1
	if n == 0 {
		return name
	}
	return fmt.Sprintf("%s#%d", name, n)
}

func val(name string) uint64 {
	load()
	return replay.Nondet[fresh(name)]
}

func NondetBool(name string) bool    { return val(name) != 0 }
func NondetInt(name string) int64    { return int64(val(name)) }
func NondetInt32(name string) int32  { return int32(val(name)) }
func NondetUint64(name string) uint64 { return val(name) }
func NondetByte(name string) byte    { return byte(val(name)) }

func NondetIntRange(name string, lo, hi int64) int64 {
	v := int64(val(name))
	Assume(lo <= v && v <= hi)
	return v
}

func NondetBytes(name string, n int) []byte {
	b := make([]byte, n)
	for i := range b {
		b[i] = byte(val(fmt.Sprintf("%s[%d]", name, i)))
	}
	return b
}

// NondetString returns a string of nondeterministic length 0..maxLen (the
// length is case-split by the engine) with nondeterministic bytes.
func NondetString(name string, maxLen int) string {
	n := NondetChoice("len:"+name, maxLen+1)
	return string(NondetBytes(name, n))
}

// NondetStringN returns a string of exactly n nondeterministic bytes.
func NondetStringN(name string, n int) string { return string(NondetBytes(name, n)) }

// NondetChoice forks into n alternatives (concrete result).
func NondetChoice(name string, n int) int {
	v := int(val("choice:" + name))
	if v < 0 || v >= n {
		panic(stop{"replay: choice out of range"})
	}
	return v
}

func Assume(cond bool) {
	if !cond {
		panic(stop{"assumption does not hold for the replayed values"})
	}
}

// Region declares, for the next Assert only, a known-finding region: a
// violation inside it is attributed to the finding with that id in
// /verif/known_findings.json (if it is listed there as open).
func Region(id string, in bool) { regions = append(regions, regionT{id, in}) }

func Assert(label string, cond bool) {
	regs := regions
	regions = nil
	if cond {
		return
	}
	for _, r := range regs {
		if r.in {
			Knowns = append(Knowns, r.id+" "+label)
			panic(stop{"known finding " + r.id})
		}
	}
	Failures = append(Failures, label)
	panic(stop{"assertion failed: " + label})
}

func Cover(label string) { Covered = append(Covered, label) }

func Observe(key string, v any) { Observed = append(Observed, fmt.Sprintf("%s=%v", key, v)) }

// Opaque returns a fresh token, distinct from every other opaque token.
func Opaque(name string) string { return "⟦" + fresh("opaque:"+name) + "⟧" }

// Now is the current instant: symbolic in the engine.
func Now() time.Time { return time.Now() }

// Symbolic reports whether the harness runs inside the engine.
func Symbolic() bool { return false }

// RunReplay executes a harness entry natively on the values of $VERIF_REPLAY.
func RunReplay(t *testing.T, entry func()) {
	load()
	crashed := ""
	func() {
		defer func() {
			if r := recover(); r != nil {
				if s, ok := r.(stop); ok {
					fmt.Println("REPLAY-STOP:", s.why)
					return
				}
				crashed = fmt.Sprint(r)
			}
		}()
		entry()
	}()
	for _, c := range Covered {
		fmt.Println("REPLAY-COVER:", c)
	}
	for _, o := range Observed {
		fmt.Println("REPLAY-OBSERVED:", o)
	}
	for _, k := range Knowns {
		fmt.Println("REPLAY-KNOWN:", k)
	}
	if crashed != "" {
		fmt.Println("REPLAY-PANIC:", strings.ReplaceAll(crashed, "\n", " "))
		Failures = append(Failures, "panic")
	}
	for _, f := range Failures {
		fmt.Println("REPLAY-FAILED:", f)
	}
	if len(Failures) > 0 {
		t.Fatalf("violation reproduced: %v", Failures)
	}
}

// Bound returns a tier-dependent bound (the engine's check table overrides def;
// natively the value recorded in the replay file is used).
func Bound(name string, def int) int {
	load()
	if v, ok := replay.Bounds[name]; ok {
		return v
	}
	return def
}

// AdvanceClock lets the (symbolic) clock move forward by 0..maxSeconds. The
// engine's clock only moves here; natively the real clock runs by itself.
func AdvanceClock(name string, maxSeconds int64) {}

var marks = map[string]int{}

// Mark counts an event (e.g. "the upstream was reached"); Marked reads the count.
// The engine's stubs of environment functions (reverse proxy) call Mark themselves.
func Mark(label string)       { marks[label]++ }
func Marked(label string) int { return marks[label] }

// NondetByteRange returns a nondeterministic byte in [lo, hi] (no branching in the engine).
func NondetByteRange(name string, lo, hi byte) byte {
	b := NondetByte(name)
	Assume(lo <= b)
	Assume(b <= hi)
	return b
}

// NondetPeer returns the textual "ip:port" form of a peer address with nondeterministic octets
// (IPv4 or IPv6) together with the octets. In the engine the text is an opaque marker that the
// net package's parsers map back to the symbolic octets.
func NondetPeer(name string, v6 bool) (string, []byte) {
	n := 4
	if v6 {
		n = 16
	}
	octets := NondetBytes(name, n)
	if v6 {
		return "[" + net.IP(octets).String() + "]:4711", octets
	}
	return net.IP(octets).String() + ":4711", octets
}
