//go:build verif

// Package verifapi is the interface between verification harnesses and the
// symbolic engine. The engine intercepts every function of this package; the
// bodies below are the native implementation used when a counterexample is
// replayed against the real build (values come from the replay file).
package verifapi

import (
	"encoding/json"
	"fmt"
	"net"
	"os"
	"reflect"
	"strings"
	"testing"
	"time"
	"unsafe"

	"github.com/davecgh/go-spew/spew"
)

type replayFile struct {
	Label  string            `json:"label"`
	Nondet map[string]uint64 `json:"nondet"`
	Bounds map[string]int    `json:"bounds"`
	// ids of the known findings that are listed as open: only these attribute a failure to a finding
	KnownOpen []string `json:"known_open"`
}

var (
	replay   replayFile
	loaded   bool
	seq      = map[string]int{}
	regions  []regionT
	Failures []string
	Knowns   []string
	Covered  []string
	Observed []string
)

type regionT struct {
	id string
	in bool
}

type stop struct{ why string }

func load() {
	if loaded {
		return
	}
	loaded = true
	replay.Nondet = map[string]uint64{}
	if p := os.Getenv("VERIF_REPLAY"); p != "" {
		data, err := os.ReadFile(p)
		if err != nil {
			panic(err)
		}
		if err := json.Unmarshal(data, &replay); err != nil {
			panic(err)
		}
	}
}

func fresh(name string) string {
	apiMu.Lock()
	defer apiMu.Unlock()
	n := seq[name]
	seq[name] = n + 1
	if n == 0 {
		return name
	}
	return fmt.Sprintf("%s#%d", name, n)
}

func val(name string) uint64 {
	load()
	return replay.Nondet[fresh(name)]
}

func NondetBool(name string) bool    { return val(name) != 0 }
func NondetInt(name string) int64    { return int64(val(name)) }
func NondetInt32(name string) int32  { return int32(val(name)) }
func NondetUint64(name string) uint64 { return val(name) }
func NondetByte(name string) byte    { return byte(val(name)) }

func NondetIntRange(name string, lo, hi int64) int64 {
	v := int64(val(name))
	Assume(lo <= v && v <= hi)
	return v
}

func NondetBytes(name string, n int) []byte {
	b := make([]byte, n)
	for i := range b {
		b[i] = byte(val(fmt.Sprintf("%s[%d]", name, i)))
	}
	return b
}

// NondetString returns a string of nondeterministic length 0..maxLen (the
// length is case-split by the engine) with nondeterministic bytes.
func NondetString(name string, maxLen int) string {
	n := NondetChoice("len:"+name, maxLen+1)
	return string(NondetBytes(name, n))
}

// NondetStringN returns a string of exactly n nondeterministic bytes.
func NondetStringN(name string, n int) string { return string(NondetBytes(name, n)) }

// NondetChoice forks into n alternatives (concrete result).
func NondetChoice(name string, n int) int {
	v := int(val("choice:" + name))
	if v < 0 || v >= n {
		panic(stop{"replay: choice out of range"})
	}
	return v
}

func Assume(cond bool) {
	if !cond {
		panic(stop{"assumption does not hold for the replayed values"})
	}
}

// Region declares, for the next Assert only, a known-finding region: a
// violation inside it is attributed to the finding with that id in
// /verif/known_findings.json (if it is listed there as open).
func Region(id string, in bool) { apiMuDo(func() { regions = append(regions, regionT{id, in}) }) }

func Assert(label string, cond bool) {
	apiMu.Lock()
	regs := regions
	regions = nil
	apiMu.Unlock()
	if cond {
		return
	}
	apiMu.Lock()
	defer apiMu.Unlock()
	for _, r := range regs {
		open := false
		for _, id := range replay.KnownOpen {
			open = open || id == r.id
		}
		if r.in && open {
			Knowns = append(Knowns, r.id+" "+label)
			panic(stop{"known finding " + r.id})
		}
	}
	Failures = append(Failures, label)
	panic(stop{"assertion failed: " + label})
}

func Cover(label string) { apiMuDo(func() { Covered = append(Covered, label) }) }

func Observe(key string, v any) {
	apiMuDo(func() { Observed = append(Observed, fmt.Sprintf("%s=%v", key, v)) })
}

// Opaque returns a fresh token, distinct from every other opaque token.
func Opaque(name string) string { return "⟦" + fresh("opaque:"+name) + "⟧" }

// Now is the current instant: symbolic in the engine.
func Now() time.Time { return time.Now() }

// Symbolic reports whether the harness runs inside the engine.
func Symbolic() bool { return false }

// RunReplay executes a harness entry natively on the values of $VERIF_REPLAY.
func RunReplay(t *testing.T, entry func()) {
	load()
	crashed := ""
	func() {
		defer func() {
			if r := recover(); r != nil {
				if s, ok := r.(stop); ok {
					fmt.Println("REPLAY-STOP:", s.why)
					return
				}
				crashed = fmt.Sprint(r)
			}
		}()
		entry()
	}()
	for _, c := range Covered {
		fmt.Println("REPLAY-COVER:", c)
	}
	for _, o := range Observed {
		fmt.Println("REPLAY-OBSERVED:", o)
	}
	for _, k := range Knowns {
		fmt.Println("REPLAY-KNOWN:", k)
	}
	if crashed != "" {
		fmt.Println("REPLAY-PANIC:", strings.ReplaceAll(crashed, "\n", " "))
		Failures = append(Failures, "panic")
	}
	for _, f := range Failures {
		fmt.Println("REPLAY-FAILED:", f)
	}
	if len(Failures) > 0 {
		t.Fatalf("violation reproduced: %v", Failures)
	}
}

// Bound returns a tier-dependent bound (the engine's check table overrides def;
// natively the value recorded in the replay file is used).
func Bound(name string, def int) int {
	load()
	if v, ok := replay.Bounds[name]; ok {
		return v
	}
	return def
}

// AdvanceClock lets the (symbolic) clock move forward by 0..maxSeconds. The
// engine's clock only moves here; natively the real clock runs by itself.
func AdvanceClock(name string, maxSeconds int64) {}

var marks = map[string]int{}

// Mark counts an event (e.g. "the upstream was reached"); Marked reads the count.
// The engine's stubs of environment functions (reverse proxy) call Mark themselves.
func Mark(label string)       { marks[label]++ }
func Marked(label string) int { return marks[label] }

// NondetByteRange returns a nondeterministic byte in [lo, hi] (no branching in the engine).
func NondetByteRange(name string, lo, hi byte) byte {
	b := NondetByte(name)
	Assume(lo <= b)
	Assume(b <= hi)
	return b
}

// NondetPeer returns the textual "ip:port" form of a peer address with nondeterministic octets
// (IPv4 or IPv6) together with the octets. In the engine the text is an opaque marker that the
// net package's parsers map back to the symbolic octets.
func NondetPeer(name string, v6 bool) (string, []byte) {
	n := 4
	if v6 {
		n = 16
	}
	octets := NondetBytes(name, n)
	if v6 {
		return "[" + net.IP(octets).String() + "]:4711", octets
	}
	return net.IP(octets).String() + ":4711", octets
}

// Havoc fills *ptr with an arbitrary value of its type: scalars nondeterministic, pointers nil or
// fresh, slices of 0..2 elements, maps of 0..1 entries, interfaces nil (natively) or opaque (engine).
func Havoc(name string, ptr any) {
	NondetChoice("havoc-shape-family:"+name, 8) // the engine's shape family; the individual shape decisions are recorded by name
	havoc(name, reflect.ValueOf(ptr).Elem(), 0)
}

func settable(v reflect.Value) reflect.Value {
	if v.CanSet() {
		return v
	}
	return reflect.NewAt(v.Type(), unsafe.Pointer(v.UnsafeAddr())).Elem()
}

func havoc(name string, v reflect.Value, depth int) {
	if depth > 4 {
		return
	}
	v = settable(v)
	switch v.Kind() {
	case reflect.Bool:
		v.SetBool(val(name) != 0)
	case reflect.Int, reflect.Int8, reflect.Int16, reflect.Int32, reflect.Int64:
		v.SetInt(int64(val(name)))
	case reflect.Uint, reflect.Uint8, reflect.Uint16, reflect.Uint32, reflect.Uint64, reflect.Uintptr:
		v.SetUint(val(name))
	case reflect.String:
		n := NondetChoice("len:"+name, 2)
		v.SetString(string(NondetBytes(name, n)))
	case reflect.Pointer:
		if NondetChoice("nil:"+name, 2) == 0 {
			return
		}
		p := reflect.New(v.Type().Elem())
		havoc(name+".*", p.Elem(), depth+1)
		v.Set(p)
	case reflect.Struct:
		for i := 0; i < v.NumField(); i++ {
			havoc(name+"."+v.Type().Field(i).Name, v.Field(i), depth+1)
		}
	case reflect.Slice:
		n := NondetChoice("len:"+name, 3)
		if n == 0 {
			return
		}
		s := reflect.MakeSlice(v.Type(), n, n)
		for i := 0; i < n; i++ {
			havoc(fmt.Sprintf("%s[%d]", name, i), s.Index(i), depth+1)
		}
		v.Set(s)
	case reflect.Array:
		for i := 0; i < v.Len(); i++ {
			havoc(fmt.Sprintf("%s[%d]", name, i), v.Index(i), depth+1)
		}
	case reflect.Map:
		switch NondetChoice("len:"+name, 3) {
		case 0:
			return
		case 1:
			v.Set(reflect.MakeMap(v.Type()))
			return
		}
		mp := reflect.MakeMap(v.Type())
		k := reflect.New(v.Type().Key()).Elem()
		if k.Kind() == reflect.String {
			k.SetString("k")
		}
		e := reflect.New(v.Type().Elem()).Elem()
		havoc(name+"[k]", e, depth+1)
		mp.SetMapIndex(k, e)
		v.Set(mp)
	case reflect.Interface:
		NondetChoice("nil:"+name, 2) // consumed for alignment with the engine; interfaces stay nil natively
	}
}

var snapshots []struct {
	obj  any
	dump string
}

var dumper = spew.ConfigState{DisablePointerAddresses: true, DisableCapacities: true, SortKeys: true, DisableMethods: true, Indent: " "}

// Snapshot remembers the state of everything reachable from x; Changed reports whether any of it was
// written since (engine: write monitor on the reachable cells; natively: deep dump comparison).
func Snapshot(x any) int {
	snapshots = append(snapshots, struct {
		obj  any
		dump string
	}{x, dumper.Sdump(x)})
	return len(snapshots)
}

func Changed(id int) bool {
	s := snapshots[id-1]
	return dumper.Sdump(s.obj) != s.dump
}

// SetField sets an exported or unexported field of the struct ptr points to (used by harness stand-ins
// of decoders, which only run in the engine).
func SetField(ptr any, name string, v any) {
	f := settable(reflect.ValueOf(ptr).Elem().FieldByName(name))
	rv := reflect.ValueOf(v)
	// like a decoder: a pointer value for a non-pointer field means "key absent" when nil
	if rv.Kind() == reflect.Pointer && f.Kind() != reflect.Pointer && rv.Type().Elem() == f.Type() {
		if !rv.IsNil() {
			f.Set(rv.Elem())
		}
		return
	}
	f.Set(rv)
}
