//go:build verif

package tlsx

import (
	"crypto"
	"crypto/ecdsa"
	"crypto/elliptic"
	"crypto/rand"
	"crypto/x509"
	"crypto/x509/pkix"
	"encoding/pem"
	"fmt"
	"io"
	"math/big"
	"os"
	"path/filepath"
	"time"

	"github.com/rs/zerolog"

	"github.com/dadrus/heimdall/internal/keystore"
	"github.com/dadrus/heimdall/internal/verifapi"
)

type vOpaqueSigner struct{ pub crypto.PublicKey }

func (s vOpaqueSigner) Public() crypto.PublicKey { return s.pub }
func (s vOpaqueSigner) Sign(io.Reader, []byte, crypto.SignerOpts) ([]byte, error) {
	return nil, nil
}

// VerifC19TLSKeyStoreReload: whatever the TLS key store file contains when the watcher fires (empty —
// e.g. truncated by a rotation tool that rewrites it —, a key without certificate, a key with its
// certificate, a missing key id), the reload callback returns (it runs on the watcher's goroutine, which
// has no recovery) and the certificate loaded before stays in effect after a failed reload.
func VerifC19TLSKeyStoreReload() {
	shape := verifapi.NondetChoice("key_store", 3) // 0 empty, 1 key without certificate, 2 key with certificate
	keyID := []string{"", "k1", "missing"}[verifapi.NondetChoice("key_id", 3)]
	previous := &x509.Certificate{Raw: []byte("previous")}
	ks := &keyStore{path: "/keys/tls.pem", keyID: keyID, certChain: []*x509.Certificate{previous}}
	if verifapi.Symbolic() {
		var entries []*keystore.Entry
		if shape > 0 {
			e := &keystore.Entry{KeyID: "k1", Alg: keystore.AlgECDSA, KeySize: 256, PrivateKey: vOpaqueSigner{pub: "public-k1"}}
			if shape == 2 {
				e.CertChain = []*x509.Certificate{{Raw: []byte("new")}}
			}
			entries = append(entries, e)
		}
		keystore.VerifKeyStore, keystore.VerifKeyStoreErr = entries, nil
	} else {
		dir, err := os.MkdirTemp("", "verif-c19-")
		if err != nil {
			panic(err)
		}
		defer os.RemoveAll(dir)
		ks.path = filepath.Join(dir, "tls.pem")
		var out []byte
		if shape > 0 {
			key, _ := ecdsa.GenerateKey(elliptic.P256(), rand.Reader)
			der, _ := x509.MarshalPKCS8PrivateKey(key)
			out = append(out, pem.EncodeToMemory(&pem.Block{Type: "PRIVATE KEY", Headers: map[string]string{"X-Key-ID": "k1"}, Bytes: der})...)
			if shape == 2 {
				tmpl := &x509.Certificate{SerialNumber: big.NewInt(1), Subject: pkix.Name{CommonName: "svc"}, NotBefore: time.Now().Add(-time.Hour),
					NotAfter: time.Now().Add(time.Hour), KeyUsage: x509.KeyUsageDigitalSignature}
				cder, err := x509.CreateCertificate(rand.Reader, tmpl, tmpl, &key.PublicKey, key)
				if err != nil {
					panic(err)
				}
				out = append(out, pem.EncodeToMemory(&pem.Block{Type: "CERTIFICATE", Bytes: cder})...)
			}
		}
		os.WriteFile(ks.path, out, 0o600)
	}

	crashed := ""
	func() {
		defer func() {
			if r := recover(); r != nil {
				crashed = fmt.Sprint(r)
			}
		}()
		ks.OnChanged(zerolog.Nop())
	}()
	verifapi.Cover("reloaded")
	verifapi.Observe("crashed", crashed)
	verifapi.Assert("C19/tls-key-store/reload-never-panics", crashed == "")
	applied := shape == 2 && keyID != "missing"
	if crashed == "" {
		chain := ks.activeCertificateChain()
		if applied {
			verifapi.Cover("reload-applied")
			verifapi.Assert("C19/tls-key-store/new-certificate-in-effect", len(chain) == 1 && chain[0] != previous)
		} else {
			verifapi.Cover("reload-rejected")
			verifapi.Assert("C19/tls-key-store/previous-certificate-kept-after-failed-reload", len(chain) == 1 && chain[0] == previous)
		}
	}
}
