//go:build verif

package pkix

import (
	"crypto/x509"
	"errors"

	"github.com/dadrus/heimdall/internal/verifapi"
)

// Engine-only stand-in of the certificate path validation (crypto/x509.Verify is outside the encoding):
// the chain is valid or not, nondeterministically.
func verifStub_ValidateCertificate(*x509.Certificate, ...ValidationOption) error {
	if verifapi.NondetBool("certificate-chain.valid") {
		return nil
	}
	return errors.New("x509: certificate signed by unknown authority")
}
