//go:build verif

package errorchain

import (
	"errors"
	"fmt"
	"strings"

	"github.com/dadrus/heimdall/internal/verifapi"
)

var errToyA = errors.New("a")
var errToyB = errors.New("b")

func VerifToy() {
	x := verifapi.NondetInt("x")
	y := verifapi.NondetIntRange("y", 0, 10)
	s := verifapi.NondetString("s", 3)
	m := map[string]int{"ab": 1, "c": 2}
	if v, ok := m[s]; ok {
		verifapi.Cover("found")
		verifapi.Assert("toy/map", (v == 1) == (s == "ab"))
	}
	if strings.HasPrefix(s, "a") && strings.Contains(s, "b") {
		verifapi.Cover("prefix")
		verifapi.Assert("toy/len", len(s) >= 2)
	}
	if x > 5 && x+y < 3 {
		verifapi.Cover("overflow")
	}
	var err error = NewWithMessage(errToyA, "msg").CausedBy(errToyB)
	if y > 5 {
		err = fmt.Errorf("wrapped: %w", err)
	}
	verifapi.Assert("toy/is", errors.Is(err, errToyA) && errors.Is(err, errToyB))
	verifapi.Assert("toy/bad", x != 12345 || y != 7)
}
