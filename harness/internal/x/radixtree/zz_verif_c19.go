//go:build verif

package radixtree

import (
	"fmt"
	"strconv"

	"github.com/dadrus/heimdall/internal/verifapi"
)

// VerifC19TreeArbitraryExpression: the path expression of a rule arrives with a rule set, i.e. from a
// reloadable or remote source. Whatever its bytes are (lone escape characters, empty wildcard names,
// empty segments, a truncated escape at the very end), adding it to a tree that already holds other
// expressions, looking a path up and deleting it again ends with a value or an error — never with a panic
// on the goroutine of the rule provider.
func VerifC19TreeArbitraryExpression() {
	maxLen := verifapi.Bound("max_expr_len", 4)
	expr := "/" + verifapi.NondetString("expr", maxLen)
	if !verifapi.Symbolic() {
		verifapi.Observe("expr", strconv.Quote(expr))
	}
	crashed := ""
	func() {
		defer func() {
			if r := recover(); r != nil {
				crashed = fmt.Sprint(r)
			}
		}()
		tree := New[int]()
		if verifapi.NondetBool("other_expressions_present") {
			_ = tree.Add("/files/a", 1)
			_ = tree.Add("/:x/b", 2)
		}
		if err := tree.Add(expr, 3); err != nil {
			verifapi.Cover("rejected")
			return
		}
		verifapi.Cover("added")
		_, _ = tree.Find("/files/a", LookupMatcherFunc[int](func(int, []string, []string) bool { return true }))
		_ = tree.Delete(expr, ValueMatcherFunc[int](func(v int) bool { return v == 3 }))
		verifapi.Cover("deleted")
	}()
	verifapi.Observe("crashed", crashed)
	verifapi.Assert("C19/arbitrary-path-expression-never-panics", crashed == "")
}
