//go:build verif

package radixtree

import (
	"fmt"
	"strconv"
	"strings"

	"github.com/dadrus/heimdall/internal/verifapi"
)

// ---------------------------------------------------------------------------
// Reference semantics of path expressions, written from
// docs/content/docs/rules/regular_rule.adoc ("Path Expression", "Rule Matching
// Specificity & Backtracking") — never from the tree implementation.
// ---------------------------------------------------------------------------

const (
	vkLiteral = iota
	vkSingle
	vkFree
)

type vSeg struct {
	kind int
	lit  string // literal text (escape removed)
	name string // wildcard name; "*" = unnamed
}

// vParse splits an expression "/s1/s2/..." into segments.
func vParse(expr string) []vSeg {
	var segs []vSeg
	i := 1 // skip leading '/'
	for {
		j := i
		for j < len(expr) && expr[j] != '/' {
			j++
		}
		s := expr[i:j]
		switch {
		case len(s) > 0 && s[0] == ':':
			segs = append(segs, vSeg{kind: vkSingle, name: s[1:]})
		case len(s) > 0 && s[0] == '*':
			segs = append(segs, vSeg{kind: vkFree, name: s[1:]})
		case len(s) >= 2 && s[0] == '\\' && (s[1] == ':' || s[1] == '*' || s[1] == '\\'):
			segs = append(segs, vSeg{kind: vkLiteral, lit: s[1:]})
		default:
			segs = append(segs, vSeg{kind: vkLiteral, lit: s})
		}
		if j >= len(expr) {
			return segs
		}
		i = j + 1
	}
}

type vCapture struct{ name, value string }

// vMatch decides whether the whole path is matched by the expression.
func vMatch(segs []vSeg, path string) (bool, []vCapture) {
	if len(path) == 0 || path[0] != '/' {
		return false, nil
	}
	var caps []vCapture
	pos := 1
	for si, sg := range segs {
		last := si == len(segs)-1
		if sg.kind == vkFree {
			rest := path[pos:]
			if len(rest) == 0 { // a free wildcard matches the non-empty remainder
				return false, nil
			}
			return true, append(caps, vCapture{sg.name, rest})
		}
		end := pos
		for end < len(path) && path[end] != '/' {
			end++
		}
		cur := path[pos:end]
		switch sg.kind {
		case vkLiteral:
			if cur != sg.lit {
				return false, nil
			}
		case vkSingle:
			if len(cur) == 0 { // wildcards never match an empty segment
				return false, nil
			}
			caps = append(caps, vCapture{sg.name, cur})
		}
		if last {
			return end == len(path), caps
		}
		if end >= len(path) { // path has fewer segments than the expression
			return false, nil
		}
		pos = end + 1
	}
	return false, nil
}

// vMoreSpecific: segment by segment a literal beats a single wildcard, which beats a free wildcard.
func vMoreSpecific(a, b []vSeg) bool {
	for i := 0; i < len(a) && i < len(b); i++ {
		if a[i].kind != b[i].kind {
			return a[i].kind < b[i].kind
		}
	}
	return false
}

type vExpr struct {
	text      string
	segs      []vSeg
	values    []int // value ids in insertion (rule-set) order
	backtrack bool
}

// vRefLookup is the documented lookup: most specific matching expression first, first value whose
// condition holds wins, a less specific expression only if backtracking is enabled for the failed one.
func vRefLookup(exprs []*vExpr, cond []bool, path string) (int, []vCapture) {
	// selection sort by specificity among matching candidates
	done := make([]bool, len(exprs))
	for range exprs {
		best := -1
		for i, e := range exprs {
			if done[i] {
				continue
			}
			if best < 0 || vMoreSpecific(e.segs, exprs[best].segs) {
				best = i
			}
		}
		if best < 0 {
			break
		}
		done[best] = true
		e := exprs[best]
		ok, caps := vMatch(e.segs, path)
		if !ok {
			continue
		}
		for _, v := range e.values {
			if cond[v] {
				return v, caps
			}
		}
		if !e.backtrack {
			return -1, nil
		}
	}
	return -1, nil
}

// ---------------------------------------------------------------------------
// Expression catalogue
// ---------------------------------------------------------------------------

var vFixedSets = [][]string{
	// documentation example (regular_rule.adoc)
	{"/files/**", "/files/:team/:name", "/files/team3/:name"},
	// shapes from the repository's own tests
	{"/date/:year/abc", "/date/**"},
	{"/images/abc.jpg", "/images/:imgname", "/images/*path"},
	{"/:page", "/:page/:index", "/"},
	{"/a/:x/b", "/a/:y/:z", "/a/**"},
	{"/:x/foo/bar", "/:x/:y"},
	{"/a/\\:x", "/a/:x", "/a/\\*y"},
	{"/ab", "/a", "/abc/:x", "/a/*r"},
	{"/a/", "/a/**", "/**"},
	{"/a/b", "/a/:x", "/:y/b", "/**"},
}

var vSegPool = []string{"a", "ab", "b", ":x", ":y", ":*", "\\:a", "a:b", ""}
var vLastPool = []string{"*r", "**"}

type vRand struct{ s uint64 }

func (r *vRand) next(n int) int {
	r.s = r.s*6364136223846793005 + 1442695040888963407
	return int((r.s >> 33) % uint64(n))
}

// vGenExpr draws one syntactically valid expression of depth 1..3.
func vGenExpr(r *vRand) string {
	depth := 1 + r.next(3)
	e := ""
	for d := 0; d < depth; d++ {
		if d == depth-1 && r.next(4) == 0 {
			return e + "/" + vLastPool[r.next(len(vLastPool))]
		}
		e += "/" + vSegPool[r.next(len(vSegPool))]
	}
	return e
}

// the documentation does not define expressions using one wildcard name twice
func vDuplicateNames(e string) bool {
	seen := map[string]bool{}
	for _, sg := range vParse(e) {
		if sg.kind != vkLiteral && sg.name != "*" {
			if seen[sg.name] {
				return true
			}
			seen[sg.name] = true
		}
	}
	return false
}

func vGenSet(r *vRand, n int) []string {
	var set []string
	for len(set) < n {
		e := vGenExpr(r)
		dup := vDuplicateNames(e)
		for _, o := range set {
			if o == e {
				dup = true
			}
		}
		if !dup {
			set = append(set, e)
		}
	}
	return set
}

type vMatcher struct {
	cond []bool
}

func (m *vMatcher) Match(value int, _, _ []string) bool { return m.cond[value] }

// VerifC02Lookup: for an expression set (catalogue item or generated), every insertion order, symbolic
// backtracking flags and symbolic match conditions, the tree lookup of EVERY path up to the length bound
// equals the documented lookup.
func VerifC02Lookup() {
	nGen := verifapi.Bound("generated_sets", 20)
	maxLen := verifapi.Bound("max_path_len", 6)
	seed := verifapi.Bound("seed", 0)

	which := verifapi.NondetChoice("set", len(vFixedSets)+nGen)
	var texts []string
	if which < len(vFixedSets) {
		texts = vFixedSets[which]
	} else {
		r := &vRand{s: uint64(seed)*1000003 + uint64(which)}
		texts = vGenSet(r, 2+r.next(3))
	}

	verifapi.Observe("expressions", strings.Join(texts, " "))

	// expressions, each with 1..2 values sharing one (symbolic) backtracking flag
	var exprs []*vExpr
	nvals := 0
	for i, t := range texts {
		e := &vExpr{text: t, segs: vParse(t), backtrack: verifapi.NondetBool("backtracking")}
		e.values = append(e.values, nvals)
		nvals++
		if i == 0 { // the first expression carries two values (two rules of one rule set)
			e.values = append(e.values, nvals)
			nvals++
		}
		exprs = append(exprs, e)
	}
	cond := make([]bool, nvals)
	for i := range cond {
		cond[i] = verifapi.NondetBool("cond")
	}

	// arbitrary insertion order of the expressions (values of one expression keep their order)
	order := make([]int, 0, len(exprs))
	rest := make([]int, len(exprs))
	for i := range rest {
		rest[i] = i
	}
	for len(rest) > 0 {
		k := verifapi.NondetChoice("order", len(rest))
		order = append(order, rest[k])
		rest = append(rest[:k:k], rest[k+1:]...)
	}
	tree := New[int]()
	for _, ei := range order {
		e := exprs[ei]
		for _, v := range e.values {
			if err := tree.Add(e.text, v, WithBacktracking[int](e.backtrack)); err != nil {
				// two expressions that differ only in wildcard names are rejected as ambiguous; not part of this claim
				verifapi.Cover("rejected-expression-set")
				return
			}
		}
	}

	path := "/" + verifapi.NondetString("path", maxLen-1)

	entry, err := tree.Find(path, &vMatcher{cond: cond})
	want, wantCaps := vRefLookup(exprs, cond, path)
	if !verifapi.Symbolic() {
		verifapi.Observe("path", strconv.Quote(path))
		verifapi.Observe("want", want)
		verifapi.Observe("wantCaps", fmt.Sprintf("%q", wantCaps))
		if entry != nil {
			verifapi.Observe("got", fmt.Sprintf("%d %q", entry.Value, entry.Parameters))
		} else {
			verifapi.Observe("got", err)
		}
	}

	if want < 0 {
		verifapi.Cover("no-match")
		verifapi.Assert("C02/no-match-agrees", err != nil)
		return
	}
	verifapi.Cover("match")
	verifapi.Assert("C02/match-found", err == nil && entry != nil)
	verifapi.Assert("C02/most-specific-value-selected", entry.Value == want)
	named := 0
	for _, c := range wantCaps {
		if c.name == "*" {
			continue
		}
		named++
		got, ok := entry.Parameters[c.name]
		verifapi.Assert("C02/captured-value", ok && got == c.value)
	}
	verifapi.Assert("C02/only-named-wildcards-captured", len(entry.Parameters) == named)
}
