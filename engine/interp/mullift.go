package interp

import (
	"verif/engine/solver"
	"verif/engine/sym"
)

// Multiplication by a constant (seconds -> nanoseconds) stalls bit-blasting
// solvers. liftCond rewrites signed comparisons between terms that are all
// multiples of the same constant c into comparisons of the factors:
//
//	x*c <= y*c   ==>   x <= y        provided |x|,|y| <= MaxInt64/c on this path
//
// The no-overflow side condition is discharged by the solver on a query that
// contains no multiplication. If it cannot be discharged, nothing is rewritten.

// findMulConst returns a constant c>1 such that t contains Mul(_, c) at lifting positions.
func findMulConst(t *sym.Term) uint64 {
	switch t.Op {
	case sym.OMul:
		if t.Args[1].IsConst() && t.W == 64 && t.Args[1].Val > 1 && int64(t.Args[1].Val) > 0 {
			return t.Args[1].Val
		}
	case sym.OIte:
		if c := findMulConst(t.Args[1]); c != 0 {
			return c
		}
		return findMulConst(t.Args[2])
	case sym.OAdd, sym.OSub:
		if c := findMulConst(t.Args[0]); c != 0 {
			return c
		}
		return findMulConst(t.Args[1])
	case sym.ONeg:
		return findMulConst(t.Args[0])
	}
	return 0
}

// lift returns x with t == x*c (as mathematical integers, given the collected
// no-overflow obligations), or nil.
func (m *Machine) lift(t *sym.Term, c uint64, obl *[]*sym.Term) *sym.Term {
	ctx := m.ctx
	switch t.Op {
	case sym.OConst:
		v := t.Int(true)
		if v%int64(c) != 0 {
			return nil
		}
		return ctx.Const(uint64(v/int64(c)), 64)
	case sym.OMul:
		if t.Args[1].IsConst() && t.Args[1].Val == c {
			*obl = append(*obl, t.Args[0])
			return t.Args[0]
		}
		if t.Args[1].IsConst() && int64(t.Args[1].Val) > 0 && t.Args[1].Val%c == 0 {
			x := ctx.Mul(t.Args[0], ctx.Const(t.Args[1].Val/c, 64))
			*obl = append(*obl, t.Args[0])
			return x
		}
	case sym.OIte:
		a := m.lift(t.Args[1], c, obl)
		if a == nil {
			return nil
		}
		b := m.lift(t.Args[2], c, obl)
		if b == nil {
			return nil
		}
		return ctx.Ite(t.Args[0], a, b)
	case sym.OAdd, sym.OSub:
		a := m.lift(t.Args[0], c, obl)
		if a == nil {
			return nil
		}
		b := m.lift(t.Args[1], c, obl)
		if b == nil {
			return nil
		}
		var r *sym.Term
		if t.Op == sym.OAdd {
			r = ctx.Add(a, b)
		} else {
			r = ctx.Sub(a, b)
		}
		*obl = append(*obl, a, b, r)
		return r
	case sym.ONeg:
		a := m.lift(t.Args[0], c, obl)
		if a == nil {
			return nil
		}
		return ctx.Neg(a)
	}
	return nil
}

// noOverflow discharges |x| <= MaxInt64/c/2 for every obligation (the factor 2
// leaves room for one addition of two lifted operands).
func (m *Machine) noOverflow(obl []*sym.Term, c uint64) bool {
	ctx := m.ctx
	lim := int64((1<<62 - 1) / c)
	bad := ctx.False
	for _, x := range obl {
		if x.IsConst() {
			v := x.Int(true)
			if v > lim || v < -lim {
				return false
			}
			continue
		}
		key := liftKey{x, c}
		if ok, seen := m.liftOK[key]; seen {
			if !ok {
				return false
			}
			continue
		}
		in := ctx.And(ctx.Sle(ctx.Const(uint64(-lim), 64), x), ctx.Sle(x, ctx.Const(uint64(lim), 64)))
		bad = ctx.Or(bad, ctx.Not(in))
	}
	if bad.IsFalse() {
		return true
	}
	r, _ := m.checkSat(bad)
	ok := r == solver.Unsat
	for _, x := range obl {
		if !x.IsConst() {
			if _, seen := m.liftOK[liftKey{x, c}]; !seen {
				if ok {
					m.liftOK[liftKey{x, c}] = true
				}
			}
		}
	}
	return ok
}

type liftKey struct {
	t *sym.Term
	c uint64
}

// liftCond rewrites a boolean condition (recursively through the boolean structure).
func (m *Machine) liftCond(t *sym.Term) *sym.Term {
	if t.IsConst() || !m.hasMul(t) {
		return t
	}
	if r, ok := m.liftMemo[t]; ok {
		return r
	}
	r := m.liftCond1(t)
	m.liftMemo[t] = r
	return r
}

func (m *Machine) hasMul(t *sym.Term) bool {
	if v, ok := m.mulMemo[t]; ok {
		return v
	}
	r := false
	if t.Op == sym.OMul && t.Args[1].IsConst() && t.W == 64 {
		r = true
	} else {
		for _, a := range t.Args {
			if m.hasMul(a) {
				r = true
				break
			}
		}
	}
	m.mulMemo[t] = r
	return r
}

func (m *Machine) liftCond1(t *sym.Term) *sym.Term {
	ctx := m.ctx
	switch t.Op {
	case sym.ONot:
		return ctx.Not(m.liftCond(t.Args[0]))
	case sym.OAnd:
		return ctx.And(m.liftCond(t.Args[0]), m.liftCond(t.Args[1]))
	case sym.OOr:
		return ctx.Or(m.liftCond(t.Args[0]), m.liftCond(t.Args[1]))
	case sym.OIte:
		if t.W == 0 {
			return ctx.Ite(m.liftCond(t.Args[0]), m.liftCond(t.Args[1]), m.liftCond(t.Args[2]))
		}
	case sym.OEq, sym.OSlt, sym.OSle:
		l, r := t.Args[0], t.Args[1]
		if l.W != 64 {
			return t
		}
		mk := func(a, b *sym.Term) *sym.Term {
			switch t.Op {
			case sym.OEq:
				return ctx.Eq(a, b)
			case sym.OSlt:
				return ctx.Slt(a, b)
			}
			return ctx.Sle(a, b)
		}
		c := findMulConst(l)
		if c == 0 {
			c = findMulConst(r)
		}
		if c == 0 {
			return t
		}
		var obl []*sym.Term
		la := m.lift(l, c, &obl)
		ra := m.lift(r, c, &obl)
		if la != nil && ra != nil {
			if m.noOverflow(obl, c) {
				return mk(la, ra)
			}
			return t
		}
		// constant on one side that is not a multiple of c: round
		if la != nil && r.IsConst() && t.Op != sym.OEq {
			if m.noOverflow(obl, c) {
				k := r.Int(true)
				fl := floorDiv(k, int64(c))
				if t.Op == sym.OSle { // x*c <= k  <=> x <= floor(k/c)
					return ctx.Sle(la, ctx.Const(uint64(fl), 64))
				}
				// x*c < k <=> x < ceil(k/c) <=> x <= ceil(k/c)-1
				return ctx.Slt(la, ctx.Const(uint64(ceilDiv(k, int64(c))), 64))
			}
			return t
		}
		if ra != nil && l.IsConst() && t.Op != sym.OEq {
			if m.noOverflow(obl, c) {
				k := l.Int(true)
				if t.Op == sym.OSle { // k <= x*c <=> ceil(k/c) <= x
					return ctx.Sle(ctx.Const(uint64(ceilDiv(k, int64(c))), 64), ra)
				}
				// k < x*c <=> floor(k/c) < x
				return ctx.Slt(ctx.Const(uint64(floorDiv(k, int64(c))), 64), ra)
			}
			return t
		}
		if (la != nil && r.IsConst() || ra != nil && l.IsConst()) && t.Op == sym.OEq {
			// x*c == k with k not a multiple of c
			if m.noOverflow(obl, c) {
				return ctx.False
			}
			return t
		}
		// distribute the comparison over an ite on either side
		if l.Op == sym.OIte {
			return ctx.Ite(m.liftCond(l.Args[0]), m.liftCond(mk(l.Args[1], r)), m.liftCond(mk(l.Args[2], r)))
		}
		if r.Op == sym.OIte {
			return ctx.Ite(m.liftCond(r.Args[0]), m.liftCond(mk(l, r.Args[1])), m.liftCond(mk(l, r.Args[2])))
		}
	}
	return t
}

func floorDiv(a, b int64) int64 {
	q := a / b
	if (a%b != 0) && ((a < 0) != (b < 0)) {
		q--
	}
	return q
}

func ceilDiv(a, b int64) int64 {
	q := a / b
	if (a%b != 0) && ((a < 0) == (b < 0)) {
		q++
	}
	return q
}
