package interp

import (
	"fmt"
	"go/types"
	"os"
	"sort"
	"strings"
	"time"

	"golang.org/x/tools/go/ssa"

	"verif/engine/solver"
	"verif/engine/sym"
)

// Decision kinds along a path.
const (
	DBranch  = 'b' // Val 0/1
	DChoice  = 'c' // Val = chosen alternative
	DConc    = 'v' // concretised value
	DConcAlt = 'x' // (only as last element of a queued prefix) exclude Excl, pick another
)

type Decision struct {
	Kind byte
	Val  uint64
	F    bool     `json:",omitempty"` // forced: the other side was infeasible (constraint implied, not asserted)
	Excl []uint64 `json:",omitempty"`
}

// pathEnd is the Go panic used to stop interpreting the current path.
type pathEnd struct {
	Kind string // "done", "infeasible", "unsupported", "bound", "stop"
	Msg  string
}

// targetPanic is a panic of the interpreted program.
type targetPanic struct {
	V Value // the panic value (an Iface)
}

type Violation struct {
	Label     string            `json:"label"`
	Known     string            `json:"known_finding,omitempty"`
	Nondet    map[string]uint64 `json:"nondet"`
	Order     []string          `json:"order"`
	Decisions []Decision        `json:"decisions"`
	Observed  []string          `json:"observed,omitempty"`
	Where     string            `json:"where,omitempty"`
}

type workItem struct {
	prefix []Decision
	model  sym.Model
}

// PathResult is what one executed path reports back to the driver.
type PathResult struct {
	End         pathEnd
	Decisions   []Decision
	NewItems    []workItem
	Violations  []Violation
	Covers      []string
	Observed    []string
	Asserts     int // assertion obligations discharged (unsat or const true)
	AssertsSym  int // of those, decided by the solver
	Panicked    bool
	Steps       int
	Unknowns    int
	Unsupported string
	Races       []string
}

type Config struct {
	MaxSteps          int // per path instruction budget
	MaxDecisions      int // per path
	MaxBlockVisits    int // per frame per block (unwinding assertion)
	MaxConc           int // distinct values per concretisation point
	MapOrderAll       bool
	MapOrderSeeds     int             // with MapOrderAll: explore this many seeded assignments of start offsets to the map ranges of a path
	MapOrderRotations bool            // with MapOrderAll: only the rotations of the insertion order (Go's order for maps of <= 8 entries)
	KnownOpen         map[string]bool // known finding ids with status open
	SolverKind        string
	TimeoutMs         int
	Trace             bool
	SymbolicNanos     bool
	Bounds            map[string]int
	CallDepthCrash int // > 0: nesting deeper than this is the stack overflow of the target (a crash), not an engine bound
	SyncFiles         []string // files under test whose lock acquisitions are scheduling points of the thread layer
}

// Machine is one worker: an interpreter with its own term context and solver.
type Machine struct {
	prog *ssa.Program
	cfg  Config
	ctx  *sym.Ctx
	slv  *solver.Solver
	alt  *solver.Solver // fallback solver for unknowns
	pr   *sym.Printer

	globals  map[*ssa.Global]*Value
	initDone map[*ssa.Package]bool

	// per-path state
	prefix       []Decision
	pos          int
	decisions    []Decision
	pc           []*sym.Term // all path constraints
	sent         int         // how many of pc are asserted in the solver
	known        map[*sym.Term]bool
	model        sym.Model
	memo         map[*sym.Term]uint64
	res          *PathResult
	steps        int
	nondetSeq    map[string]int
	regions      []region
	choiceLog    map[string]uint64
	varOrder     []string
	nowSeq       int
	lastNow      *sym.Term
	nowNsec      *sym.Term
	prefer       []*sym.Term
	liftOK       map[liftKey]bool
	liftMemo     map[*sym.Term]*sym.Term
	mulMemo      map[*sym.Term]bool
	watch        map[*Value]string
	watchHits    []string
	opaqueSeq    int
	hashLog      []hashRec
	depth        int
	cur          *frame
	marks        map[string]int
	hashers      map[*Value]*hasher
	forkSites    map[string]int
	peers        map[string][]*sym.Term
	mapOrderSeed int
	snapSeq      int
	havocFamily  int
	havocCalls   int
	mapRangeNo   int
	inInit       bool
	implCache    map[string]bool
	spawnHook    func(fr *frame, fn Value, args []Value, site *ssa.CallCommon)
	watchMaps    map[*MapV]string
	syncHook     func(op string, mu *Value)
	syncMaps     map[*Value]*MapV
	initProblems []string
	tl           *threadLayer
	ranges map[*sym.Term]urange
	marshalled map[string]marshalRec
	tokenSeq   int

	// tables
	intrinsics map[string]intrinsic
	fnCache    map[*ssa.Function]intrinsic
	funcsSeen  map[string]int
	stubsSeen  map[string]int
	typeCache  map[string]types.Type
}

type region struct {
	id   string
	cond *sym.Term
}

type hashRec struct {
	in  []*sym.Term
	out []*sym.Term
}

func NewMachine(prog *ssa.Program, cfg Config) (*Machine, error) {
	if cfg.MaxSteps == 0 {
		cfg.MaxSteps = 5_000_000
	}
	if cfg.MaxDecisions == 0 {
		cfg.MaxDecisions = 2000
	}
	if cfg.MaxBlockVisits == 0 {
		cfg.MaxBlockVisits = 20000
	}
	if cfg.MaxConc == 0 {
		cfg.MaxConc = 64
	}
	if cfg.SolverKind == "" {
		cfg.SolverKind = "z3"
	}
	if cfg.TimeoutMs == 0 {
		cfg.TimeoutMs = 20000
	}
	s, err := solver.New(cfg.SolverKind, cfg.TimeoutMs)
	if err != nil {
		return nil, err
	}
	if lf := os.Getenv("VERIF_SOLVER_LOG"); lf != "" {
		if f, err := os.OpenFile(lf, os.O_CREATE|os.O_WRONLY|os.O_APPEND, 0o644); err == nil {
			s.Log = f
		}
	}
	m := &Machine{
		prog:      prog,
		cfg:       cfg,
		ctx:       sym.NewCtx(),
		slv:       s,
		pr:        sym.NewPrinter(),
		globals:   map[*ssa.Global]*Value{},
		initDone:  map[*ssa.Package]bool{},
		fnCache:   map[*ssa.Function]intrinsic{},
		funcsSeen: map[string]int{},
		stubsSeen: map[string]int{},
		typeCache: map[string]types.Type{},
	}
	m.forkSites = map[string]int{}
	m.intrinsics = buildIntrinsics()
	return m, nil
}

func (m *Machine) Close() {
	m.slv.Close()
	if m.alt != nil {
		m.alt.Close()
	}
}

func (m *Machine) SolverStats() solver.Stats {
	st := m.slv.Stats
	if m.alt != nil {
		st.Add(m.alt.Stats)
	}
	return st
}

func (m *Machine) FuncsSeen() map[string]int { return m.funcsSeen }
func (m *Machine) StubsSeen() map[string]int { return m.stubsSeen }

// ---- path control ----

func (m *Machine) endPath(kind, msg string) {
	panic(pathEnd{kind, msg})
}

func (m *Machine) unsupported(format string, args ...interface{}) {
	if m.cfg.Trace {
		fmt.Fprintf(os.Stderr, "  unsupported %q in:\n", fmt.Sprintf(format, args...))
		for f, i := m.cur, 0; f != nil && i < 14; f, i = f.caller, i+1 {
			fmt.Fprintf(os.Stderr, "     %s\n", f.fn.String())
		}
	}
	panic(pathEnd{"unsupported", fmt.Sprintf(format, args...)})
}

// RunPath executes entry following the given prefix.
func (m *Machine) RunPath(entry *ssa.Function, item workItem) (res *PathResult) {
	if m.ctx.Size() > 2_000_000 {
		m.ctx.Reset()
		// globals may still reference old terms; they stay valid as values
	}
	m.ctx.ResetVars()
	m.prefix = item.prefix
	m.pos = 0
	m.decisions = m.decisions[:0]
	m.pc = m.pc[:0]
	m.sent = 0
	m.known = map[*sym.Term]bool{}
	m.model = item.model
	if m.model == nil {
		m.model = sym.Model{}
	}
	m.memo = map[*sym.Term]uint64{}
	m.steps = 0
	m.nondetSeq = map[string]int{}
	m.regions = nil
	m.choiceLog = map[string]uint64{}
	m.varOrder = nil
	m.nowSeq = 0
	m.lastNow = nil
	m.nowNsec = nil
	m.prefer = nil
	m.marks = map[string]int{}
	m.liftOK = map[liftKey]bool{}
	m.liftMemo = map[*sym.Term]*sym.Term{}
	m.mulMemo = map[*sym.Term]bool{}
	m.watch = nil
	m.watchHits = nil
	m.opaqueSeq = 0
	m.hashLog = nil
	m.hashers = nil
	m.peers = nil
	m.mapOrderSeed, m.mapRangeNo = -1, 0
	m.snapSeq = 0
	m.havocCalls = 0
	m.watchMaps = nil
	m.depth = 0
	m.ranges = nil
	m.marshalled = nil
	m.tokenSeq = 0
	m.res = &PathResult{}
	res = m.res
	m.slv.Reset()
	m.pr.Reset()

	defer m.abortThreads()
	defer func() {
		res.Decisions = append([]Decision(nil), m.decisions...)
		res.Steps = m.steps
		if r := recover(); r != nil {
			switch r := r.(type) {
			case pathEnd:
				res.End = r
				if r.Kind == "unsupported" {
					res.Unsupported = r.Msg
				}
			case targetPanic:
				// a panic of the target program escaped the harness entry
				res.End = pathEnd{"panic", m.panicString(r.V)}
				res.Panicked = true
			default:
				panic(r)
			}
		}
	}()
	m.callFunction(nil, entry, nil, nil)
	res.End = pathEnd{"done", ""}
	return res
}

func (m *Machine) panicString(v Value) string {
	return m.DebugString(v)
}

// addPC records a constraint that holds on the rest of the path.
func (m *Machine) addPC(c *sym.Term) {
	if c.IsTrue() {
		return
	}
	m.pc = append(m.pc, c)
	m.noteKnown(c, true)
}

func (m *Machine) noteKnown(c *sym.Term, v bool) {
	m.known[c] = v
	if c.Op == sym.ONot {
		m.noteKnown(c.Args[0], !v)
	} else if v && c.Op == sym.OAnd {
		m.noteKnown(c.Args[0], true)
		m.noteKnown(c.Args[1], true)
	} else if !v && c.Op == sym.OOr {
		m.noteKnown(c.Args[0], false)
		m.noteKnown(c.Args[1], false)
	}
}

func (m *Machine) evalBool(c *sym.Term) bool {
	return sym.Eval(c, m.model, m.memo) == 1
}

func (m *Machine) setModel(mod sym.Model) {
	m.model = mod
	m.memo = map[*sym.Term]uint64{}
}

// flush sends pending definitions and path constraints to the solver.
func (m *Machine) flush() {
	for ; m.sent < len(m.pc); m.sent++ {
		ref := m.pr.Ref(m.pc[m.sent])
		m.pr.Out.WriteString("(assert " + ref + ")\n")
	}
	if txt := m.pr.Flush(); txt != "" {
		m.slv.Send(txt)
	}
}

// checkSat decides pc ∧ extra. On Sat it returns a model of all variables.
func (m *Machine) checkSat(extra *sym.Term) (solver.Result, sym.Model) {
	if extra.IsFalse() {
		return solver.Unsat, nil
	}
	m.flush()
	ref := m.pr.Ref(extra)
	m.slv.Send(m.pr.Flush())
	m.slv.Push()
	m.slv.Send("(assert " + ref + ")\n")
	tq := time.Now()
	r, err := m.slv.Check()
	if err != nil {
		panic(err)
	}
	if m.cfg.Trace && time.Since(tq) > 2*time.Second {
		fmt.Fprintf(os.Stderr, "  slow query %.1fs -> %v: %s\n", time.Since(tq).Seconds(), r, truncate(extra.String(), 300))
	}
	var mod sym.Model
	if r == solver.Sat {
		mod = m.readModel(m.slv)
	}
	m.slv.Pop()
	if r == solver.Unknown {
		r, mod = m.checkSatAlt(extra)
		if r == solver.Unknown {
			m.res.Unknowns++
		}
	}
	return r, mod
}

func (m *Machine) readModel(s *solver.Solver) sym.Model {
	vars := m.ctx.Vars
	syms := make([]string, 0, len(vars))
	names := make([]string, 0, len(vars))
	for _, v := range vars {
		syms = append(syms, sym.VarSym(v.Name))
		names = append(names, v.Name)
	}
	mod := sym.Model{}
	if len(syms) == 0 {
		return mod
	}
	// only variables already declared in the solver can be asked for
	var ask, askNames []string
	for i, v := range vars {
		if m.prSent(v) {
			ask = append(ask, syms[i])
			askNames = append(askNames, names[i])
		}
	}
	if len(ask) == 0 {
		return mod
	}
	vals, err := s.GetValues(ask)
	if err != nil {
		panic(fmt.Errorf("model extraction failed: %v", err))
	}
	for i, sy := range ask {
		mod[askNames[i]] = vals[strings.Trim(sy, "|")]
	}
	return mod
}

func (m *Machine) prSent(v *sym.Term) bool { return m.pr.Has(v) }

// checkSatAlt re-runs the whole query on a fallback solver (fresh process state).
func (m *Machine) checkSatAlt(extra *sym.Term) (solver.Result, sym.Model) {
	kinds := []string{"z3-new", "cvc5-int", "z3"}
	for _, k := range kinds {
		if k == m.cfg.SolverKind {
			continue
		}
		s, err := solver.New(k, m.cfg.TimeoutMs)
		if err != nil {
			continue
		}
		pr := sym.NewPrinter()
		for _, c := range m.pc {
			ref := pr.Ref(c)
			pr.Out.WriteString("(assert " + ref + ")\n")
		}
		ref := pr.Ref(extra)
		pr.Out.WriteString("(assert " + ref + ")\n")
		s.Send(pr.Flush())
		r, err := s.Check()
		var mod sym.Model
		if err == nil && r == solver.Sat {
			var ask, names []string
			for _, v := range m.ctx.Vars {
				if pr.Has(v) {
					ask = append(ask, sym.VarSym(v.Name))
					names = append(names, v.Name)
				}
			}
			mod = sym.Model{}
			if len(ask) > 0 {
				vals, e2 := s.GetValues(ask)
				if e2 != nil {
					r = solver.Unknown
				} else {
					for i, sy := range ask {
						mod[names[i]] = vals[strings.Trim(sy, "|")]
					}
				}
			}
		}
		m.slv.Stats.Add(s.Stats)
		s.Close()
		if err == nil && r != solver.Unknown {
			return r, mod
		}
	}
	return solver.Unknown, nil
}

// branch decides a symbolic condition, forking when both sides are feasible.
func (m *Machine) branch(c *sym.Term) bool {
	if c.IsConst() {
		return c.Val == 1
	}
	c = m.liftCond(c)
	if c.IsConst() {
		return c.Val == 1
	}
	if v, ok := m.known[c]; ok {
		return v
	}
	if v, ok := m.rangeDecide(c); ok {
		return v
	}
	if m.pos < len(m.prefix) {
		d := m.prefix[m.pos]
		if d.Kind != DBranch {
			panic(fmt.Sprintf("replay divergence: expected decision kind %c, path wants branch", d.Kind))
		}
		m.pos++
		m.decisions = append(m.decisions, d)
		v := d.Val == 1
		if d.F {
			m.noteKnown(c, v)
		} else if v {
			m.addPC(c)
		} else {
			m.addPC(m.ctx.Not(c))
		}
		return v
	}
	if len(m.decisions) >= m.cfg.MaxDecisions {
		m.endPath("bound", "decision budget exhausted")
	}
	v := m.evalBool(c)
	var other *sym.Term
	if v {
		other = m.ctx.Not(c)
	} else {
		other = c
	}
	r, mod := m.checkSat(other)
	if r == solver.Sat {
		alt := append(append([]Decision(nil), m.decisions...), Decision{Kind: DBranch, Val: b2u(!v)})
		m.res.NewItems = append(m.res.NewItems, workItem{alt, mod})
		m.decisions = append(m.decisions, Decision{Kind: DBranch, Val: b2u(v)})
		if m.cur != nil {
			m.forkSites[m.cur.fn.String()]++
		}
		if v {
			m.addPC(c)
		} else {
			m.addPC(m.ctx.Not(c))
		}
		return v
	}
	// the other side is unsat (or unknown, counted): the condition is implied by the path
	m.decisions = append(m.decisions, Decision{Kind: DBranch, Val: b2u(v), F: true})
	m.noteKnown(c, v)
	return v
}

func b2u(b bool) uint64 {
	if b {
		return 1
	}
	return 0
}

// choice forks n ways without constraints.
func (m *Machine) choice(n int) int {
	if n <= 1 {
		return 0
	}
	if m.pos < len(m.prefix) {
		d := m.prefix[m.pos]
		if d.Kind != DChoice {
			panic(fmt.Sprintf("replay divergence: expected decision kind %c, path wants choice", d.Kind))
		}
		m.pos++
		m.decisions = append(m.decisions, d)
		return int(d.Val)
	}
	if len(m.decisions) >= m.cfg.MaxDecisions {
		m.endPath("bound", "decision budget exhausted")
	}
	for k := n - 1; k >= 1; k-- {
		alt := append(append([]Decision(nil), m.decisions...), Decision{Kind: DChoice, Val: uint64(k)})
		m.res.NewItems = append(m.res.NewItems, workItem{alt, m.model})
	}
	m.decisions = append(m.decisions, Decision{Kind: DChoice, Val: 0})
	return 0
}

// concretize picks a concrete value for t, forking over all feasible values.
func (m *Machine) concretize(t *sym.Term, what string) uint64 {
	if t.IsConst() {
		return t.Val
	}
	var excl []uint64
	if m.pos < len(m.prefix) {
		d := m.prefix[m.pos]
		m.pos++
		switch d.Kind {
		case DConc:
			m.decisions = append(m.decisions, d)
			m.addPC(m.ctx.Eq(t, m.ctx.Const(d.Val, t.W)))
			return d.Val
		case DConcAlt:
			excl = d.Excl
			for _, e := range excl {
				m.addPC(m.ctx.Ne(t, m.ctx.Const(e, t.W)))
			}
		default:
			panic(fmt.Sprintf("replay divergence: expected decision kind %c, path wants concretize", d.Kind))
		}
	}
	if len(m.decisions) >= m.cfg.MaxDecisions {
		m.endPath("bound", "decision budget exhausted")
	}
	v := sym.Eval(t, m.model, m.memo)
	if len(excl)+1 > m.cfg.MaxConc {
		m.endPath("bound", "too many values at concretisation point: "+what)
	}
	ne := m.ctx.Ne(t, m.ctx.Const(v, t.W))
	r, mod := m.checkSat(ne)
	if r == solver.Sat {
		ex := append(append([]uint64(nil), excl...), v)
		alt := append(append([]Decision(nil), m.decisions...), Decision{Kind: DConcAlt, Excl: ex})
		m.res.NewItems = append(m.res.NewItems, workItem{alt, mod})
		m.decisions = append(m.decisions, Decision{Kind: DConc, Val: v})
	} else if len(excl) > 0 {
		m.decisions = append(m.decisions, Decision{Kind: DConc, Val: v})
	}
	m.addPC(m.ctx.Eq(t, m.ctx.Const(v, t.W)))
	return v
}

// assume restricts the path; ends it when infeasible.
func (m *Machine) assume(c *sym.Term) {
	c = m.liftCond(c)
	if c.IsTrue() {
		return
	}
	if c.IsFalse() {
		m.endPath("infeasible", "assume(false)")
	}
	if v, ok := m.known[c]; ok {
		if v {
			return
		}
		m.endPath("infeasible", "assumption contradicts path")
	}
	if !m.evalBool(c) {
		r, mod := m.checkSat(c)
		switch r {
		case solver.Sat:
			m.setModel(mod)
		case solver.Unsat:
			m.endPath("infeasible", "assumption unsatisfiable")
		default:
			m.endPath("unknown", "solver could not decide an assumption")
		}
	}
	m.addPC(c)
}

// nondetValues snapshots the values of all nondet variables under mod.
func (m *Machine) violation(label string, mod sym.Model) Violation {
	v := Violation{Label: label, Nondet: map[string]uint64{}}
	for _, t := range m.ctx.Vars {
		v.Nondet[t.Name] = mod[t.Name]
		v.Order = append(v.Order, t.Name)
	}
	for k, c := range m.choiceLog {
		v.Nondet[k] = c
	}
	v.Decisions = append([]Decision(nil), m.decisions...)
	v.Observed = append([]string(nil), m.res.Observed...)
	return v
}

// assert checks cond on the current path. Known-finding regions registered
// for this assertion are split off.
func (m *Machine) assert(label string, cond *sym.Term) {
	regs := m.regions
	m.regions = nil
	cond = m.liftCond(cond)
	for i := range regs {
		regs[i].cond = m.liftCond(regs[i].cond)
	}
	if cond.IsTrue() {
		m.res.Asserts++
		return
	}
	if v, ok := m.known[cond]; ok && v {
		m.res.Asserts++
		return
	}
	viol := m.ctx.Not(cond)
	outside := viol
	for _, r := range regs {
		if !m.cfg.KnownOpen[r.id] {
			continue
		}
		in := m.ctx.And(viol, r.cond)
		var res solver.Result
		var mod sym.Model
		if !in.IsFalse() && m.evalBool(in) {
			res, mod = solver.Sat, m.model
		} else {
			res, mod = m.checkSat(in)
		}
		if res == solver.Sat {
			vv := m.violation(label, mod)
			vv.Known = r.id
			m.res.Violations = append(m.res.Violations, vv)
		}
		outside = m.ctx.And(outside, m.ctx.Not(r.cond))
	}
	var res solver.Result
	var mod sym.Model
	if !outside.IsFalse() && !outside.IsConst() && m.evalBool(outside) {
		res, mod = solver.Sat, m.model
	} else if outside.IsTrue() {
		res, mod = solver.Sat, m.model
	} else {
		res, mod = m.checkSat(outside)
	}
	switch res {
	case solver.Sat:
		if len(m.prefer) > 0 {
			// try to find a witness that also satisfies the replay preferences
			pref := outside
			for _, p := range m.prefer {
				pref = m.ctx.And(pref, p)
			}
			if r2, mod2 := m.checkSat(pref); r2 == solver.Sat {
				mod = mod2
			}
		}
		m.res.Violations = append(m.res.Violations, m.violation(label, mod))
	case solver.Unsat:
		m.res.Asserts++
		m.res.AssertsSym++
	default:
		// counted in Unknowns by checkSat
	}
	// continue under the assumption that the assertion holds
	if cond.IsFalse() {
		m.endPath("stop", "assertion violated on every continuation")
	}
	if !m.evalBool(cond) {
		r, mod := m.checkSat(cond)
		if r != solver.Sat {
			m.endPath("stop", "no continuation satisfies the assertion")
		}
		m.setModel(mod)
	}
	m.addPC(cond)
}

// ---- nondeterministic inputs ----

func (m *Machine) freshName(name string) string {
	n := m.nondetSeq[name]
	m.nondetSeq[name] = n + 1
	if n == 0 {
		return name
	}
	return fmt.Sprintf("%s#%d", name, n)
}

func (m *Machine) nondet(name string, w int) *sym.Term {
	nm := m.freshName(name)
	return m.ctx.Var(nm, w)
}

// ---- global / package initialisation ----

func (m *Machine) global(g *ssa.Global) *Value {
	if c, ok := m.globals[g]; ok {
		return c
	}
	pkg := g.Pkg
	m.initPackage(pkg)
	if c, ok := m.globals[g]; ok {
		return c
	}
	panic("global not allocated: " + g.String())
}

func (m *Machine) initPackage(pkg *ssa.Package) {
	if m.initDone[pkg] {
		return
	}
	m.initDone[pkg] = true
	for _, mem := range pkg.Members {
		if g, ok := mem.(*ssa.Global); ok {
			cell := new(Value)
			*cell = m.zero(deref(g.Type()))
			m.globals[g] = cell
		}
	}
	if skipInit[pkg.Pkg.Path()] {
		return
	}
	initFn := pkg.Func("init")
	if initFn == nil {
		return
	}
	pkg.Build()
	// package initialisers must not consume path decisions
	saved := m.inInit
	m.inInit = true
	func() {
		defer func() {
			m.inInit = saved
			if r := recover(); r != nil {
				if pe, ok := r.(pathEnd); ok && pe.Kind == "unsupported" {
					// tolerate partially initialised packages: remember why
					m.initProblems = append(m.initProblems, pkg.Pkg.Path()+": "+pe.Msg)
					return
				}
				if tp, ok := r.(targetPanic); ok {
					m.initProblems = append(m.initProblems, pkg.Pkg.Path()+": panic "+m.DebugString(tp.V))
					return
				}
				panic(r)
			}
		}()
		m.callFunction(nil, initFn, nil, nil)
	}()
}

func deref(t types.Type) types.Type {
	if p, ok := t.Underlying().(*types.Pointer); ok {
		return p.Elem()
	}
	panic("deref of non-pointer " + t.String())
}

// lookupType finds a named type by package path and name.
func (m *Machine) lookupType(pkgPath, name string) types.Type {
	key := pkgPath + "." + name
	if t, ok := m.typeCache[key]; ok {
		return t
	}
	for _, p := range m.prog.AllPackages() {
		if p.Pkg.Path() == pkgPath {
			if tm := p.Type(name); tm != nil {
				m.typeCache[key] = tm.Type()
				return tm.Type()
			}
		}
	}
	panic("type not found: " + key)
}

func (m *Machine) lookupFunc(pkgPath, name string) *ssa.Function {
	for _, p := range m.prog.AllPackages() {
		if p.Pkg.Path() == pkgPath {
			if f := p.Func(name); f != nil {
				return f
			}
		}
	}
	return nil
}

// summary helpers
func sortedKeys(mp map[string]int) []string {
	ks := make([]string, 0, len(mp))
	for k := range mp {
		ks = append(ks, k)
	}
	sort.Strings(ks)
	return ks
}

var _ = strings.Join
var _ = time.Now

func truncate(s string, n int) string {
	if len(s) > n {
		return s[:n] + "…"
	}
	return s
}
