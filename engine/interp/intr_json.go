package interp

import (
	"strings"
	"fmt"
	"go/types"
	"sort"
	"strconv"

	"verif/engine/sym"
)

// jsonModel renders an interpreter value as an injective byte string (a stand-in for
// json.Marshal whose exact output format is outside every claim): equal values give equal
// bytes and, for values of one static type, different values give different bytes.
func (m *Machine) jsonModel(v Value, t types.Type, depth int) []*sym.Term {
	c := m.ctx
	if depth > 20 {
		m.unsupported("json model: value too deep")
	}
	lit := func(s string) []*sym.Term { return m.mkStr(s).B }
	switch x := v.(type) {
	case nil:
		return lit("n")
	case Iface:
		if x.T == nil {
			return lit("n")
		}
		out := lit("I" + strconv.Itoa(len(types.TypeString(x.T, nil))) + ":" + types.TypeString(x.T, nil) + ";")
		return append(out, m.jsonModel(x.V, x.T, depth+1)...)
	case Str:
		out := lit("s" + strconv.Itoa(len(x.B)) + ":")
		return append(out, x.B...)
	case *sym.Term:
		if x.W == 0 {
			if x.IsConst() {
				if x.Val == 1 {
					return lit("T")
				}
				return lit("F")
			}
			return []*sym.Term{c.Ite(x, c.Const('T', 8), c.Const('F', 8))}
		}
		if x.IsConst() {
			return lit("i" + strconv.FormatUint(x.Val, 16) + ";")
		}
		out := lit("x")
		for i := x.W/8 - 1; i >= 0; i-- {
			out = append(out, c.Extract(x, i*8+7, i*8))
		}
		return out
	case float64:
		return lit("f" + strconv.FormatFloat(x, 'g', -1, 64) + ";")
	case *Value:
		if x == nil {
			return lit("n")
		}
		var et types.Type
		if t != nil {
			if pt, ok := t.Underlying().(*types.Pointer); ok {
				et = pt.Elem()
			}
		}
		return append(lit("&"), m.jsonModel(*x, et, depth+1)...)
	case Struct:
		out := lit("{")
		var st *types.Struct
		if t != nil {
			st, _ = t.Underlying().(*types.Struct)
		}
		for i, f := range x {
			var ft types.Type
			if st != nil && i < st.NumFields() {
				ft = st.Field(i).Type()
			}
			out = append(out, m.jsonModel(f, ft, depth+1)...)
			out = append(out, c.Const(',', 8))
		}
		return append(out, c.Const('}', 8))
	case Array:
		out := lit("[" + strconv.Itoa(len(x)) + ":")
		for _, e := range x {
			out = append(out, m.jsonModel(e, nil, depth+1)...)
		}
		return append(out, c.Const(']', 8))
	case Slice:
		if x.Nil {
			return lit("n")
		}
		var et types.Type
		if t != nil {
			if st, ok := t.Underlying().(*types.Slice); ok {
				et = st.Elem()
			}
		}
		out := lit("[" + strconv.Itoa(len(x.A)) + ":")
		for _, e := range x.A {
			out = append(out, m.jsonModel(e, et, depth+1)...)
		}
		return append(out, c.Const(']', 8))
	case *MapV:
		if x == nil {
			return lit("n")
		}
		// encoding/json sorts map keys: with concrete keys the rendering is canonical
		type kv struct {
			k string
			e *mapEntry
		}
		var ents []kv
		for _, e := range x.Entries {
			ks, ok := e.K.(Str)
			if !ok {
				// encoding/json and go-json refuse maps whose key type is not a string / integer / TextMarshaler
				panic(jsonUnsupportedType{"map with non-string keys"})
			}
			cs, ok := ks.Concrete()
			if !ok {
				m.unsupported("json model: map with symbolic keys")
			}
			ents = append(ents, kv{cs, e})
		}
		sort.Slice(ents, func(i, j int) bool { return ents[i].k < ents[j].k })
		out := lit("<" + strconv.Itoa(len(ents)) + ":")
		for _, e := range ents {
			out = append(out, lit("s"+strconv.Itoa(len(e.k))+":"+e.k)...)
			out = append(out, m.jsonModel(e.e.V, x.VT, depth+1)...)
		}
		return append(out, c.Const('>', 8))
	}
	m.unsupported("json model: value of kind %T", v)
	return nil
}

func addJSONIntrinsics(t map[string]intrinsic) {
	marshal := func(m *Machine, fr *frame, a []Value) (res Value) {
		itf, _ := a[0].(Iface)
		defer func() {
			if r := recover(); r != nil {
				ut, ok := r.(jsonUnsupportedType)
				if !ok {
					panic(r)
				}
				et := m.lookupType("errors", "errorString")
				cell := new(Value)
				*cell = Struct{m.mkStr("json: unsupported type: " + ut.what)}
				res = Tuple{Slice{Nil: true}, Iface{T: types.NewPointer(et), V: cell}}
			}
		}()
		var bs []*sym.Term
		if itf.T == nil {
			bs = m.mkStr("n").B
		} else {
			bs = m.jsonModel(itf.V, itf.T, 0)
			m.noteMarshalled(bs, itf)
		}
		return Tuple{m.bytesToSlice(bs), Iface{}}
	}
	t["github.com/goccy/go-json.Marshal"] = marshal
	t["encoding/json.Marshal"] = marshal
	// decoding into a generic map: an opaque but deterministic and injective function of the input bytes
	// (the same stub serves every entry point, so equal bodies decode equally)
	unmarshal := func(tag string) intrinsic {
		return func(m *Machine, fr *frame, a []Value) Value {
			data := sliceTerms(a[0])
			target, _ := a[1].(Iface)
			cell, ok := target.V.(*Value)
			if !ok || cell == nil {
				m.unsupported("%s.Unmarshal: target is not a pointer", tag)
			}
			pt, _ := target.T.Underlying().(*types.Pointer)
			mt, isMap := pt.Elem().Underlying().(*types.Map)
			if !isMap {
				// decode(encode(v)) == v: bytes produced by Marshal on this path decode into a copy of the
				// value they were produced from (same type)
				if src, ok := m.marshalledValue(data, pt.Elem()); ok {
					m.store(cell, src)
					return Iface{}
				}
				m.unsupported("%s.Unmarshal into %v of bytes that were not produced by Marshal of that type on this path is not modelled", tag, pt.Elem())
			}
			if len(data) == 0 {
				et := m.lookupType("errors", "errorString")
				ec := new(Value)
				*ec = Struct{m.mkStr("unexpected end of input")}
				return Iface{T: types.NewPointer(et), V: ec}
			}
			mp := &MapV{KT: mt.Key(), VT: mt.Elem()}
			mp.Entries = append(mp.Entries, &mapEntry{K: m.mkStr("decoded-by-" + tag), V: Iface{T: types.Typ[types.String], V: Str{data}}})
			m.store(cell, mp)
			return Iface{}
		}
	}
	t["github.com/goccy/go-json.Unmarshal"] = unmarshal("json")
	t["encoding/json.Unmarshal"] = unmarshal("json")
	t["gopkg.in/yaml.v3.Unmarshal"] = unmarshal("yaml")
}

type jsonUnsupportedType struct{ what string }

type marshalRec struct {
	t types.Type
	v Value
}

func termsKey(bs []*sym.Term) string {
	var sb strings.Builder
	for _, b := range bs {
		sb.WriteString(strconv.Itoa(b.ID))
		sb.WriteByte(',')
	}
	return sb.String()
}

func (m *Machine) noteMarshalled(bs []*sym.Term, itf Iface) {
	t, v := itf.T, itf.V
	if p, ok := t.Underlying().(*types.Pointer); ok {
		cell, ok := v.(*Value)
		if !ok || cell == nil {
			return
		}
		t, v = p.Elem(), *cell
	}
	if m.marshalled == nil {
		m.marshalled = map[string]marshalRec{}
	}
	m.marshalled[termsKey(bs)] = marshalRec{t, m.deepCopyValue(v)}
}

func (m *Machine) marshalledValue(data []*sym.Term, want types.Type) (Value, bool) {
	rec, ok := m.marshalled[termsKey(data)]
	if !ok || !types.Identical(rec.t, want) {
		return nil, false
	}
	return m.deepCopyValue(rec.v), true
}

var _ = fmt.Sprint

// deepCopyValue copies a value including what it points to (pointers, slices, maps), as decoding does.
func (m *Machine) deepCopyValue(v Value) Value {
	switch x := v.(type) {
	case Struct:
		c := make(Struct, len(x))
		for i, f := range x {
			c[i] = m.deepCopyValue(f)
		}
		return c
	case Array:
		c := make(Array, len(x))
		for i, f := range x {
			c[i] = m.deepCopyValue(f)
		}
		return c
	case *Value:
		if x == nil {
			return x
		}
		cell := new(Value)
		*cell = m.deepCopyValue(*x)
		return cell
	case *MapV:
		if x == nil {
			return x
		}
		c := &MapV{KT: x.KT, VT: x.VT}
		for _, e := range x.Entries {
			c.Entries = append(c.Entries, &mapEntry{K: m.deepCopyValue(e.K), V: m.deepCopyValue(e.V)})
		}
		return c
	case Slice:
		if x.Nil {
			return x
		}
		a := make([]Value, len(x.A))
		for i, e := range x.A {
			a[i] = m.deepCopyValue(e)
		}
		return Slice{A: a}
	case Iface:
		return Iface{T: x.T, V: m.deepCopyValue(x.V)}
	}
	return v
}
