package interp

import (
	"fmt"
	"os"
	"runtime/debug"
	"sort"
	"strings"
	"sync"
	"time"

	"golang.org/x/tools/go/ssa"

	"verif/engine/solver"
)

type ExploreOpts struct {
	Workers  int
	MaxPaths int
	Deadline time.Time
	Verbose  bool
}

type Sample struct {
	End       string            `json:"end"`
	Decisions int               `json:"decisions"`
	Covers    []string          `json:"covers,omitempty"`
	Observed  []string          `json:"observed,omitempty"`
	Witness   map[string]uint64 `json:"witness,omitempty"`
}

// SelfTestCase is one explored path with a concrete witness, for the native/interpreter differential.
type SelfTestCase struct {
	Nondet   map[string]uint64
	Covers   []string
	Observed []string
	End      string
}

type Report struct {
	SelfTests    []SelfTestCase
	Entry        string
	Paths        int
	Ends         map[string]int
	Decisions    int
	Steps        int64
	Asserts      int
	AssertsSym   int
	Unknowns     int
	Violations   []Violation
	Covers       map[string]int
	Unsupported  map[string]int
	Bounds       map[string]int
	Panics       map[string]int
	Solver       solver.Stats
	Funcs        map[string]int
	Stubs        map[string]int
	Samples      []Sample
	Truncated    bool
	Wall         time.Duration
	InitProblems []string
	PathSigs     map[string]int // distinct observation signatures
	ForkSites    map[string]int
}

// Explore runs the entry over all feasible paths (depth-first, re-execution).
func Explore(prog *ssa.Program, entry *ssa.Function, cfg Config, opts ExploreOpts) (*Report, error) {
	if opts.Workers <= 0 {
		opts.Workers = 8
	}
	t0 := time.Now()
	rep := &Report{
		Entry: entry.String(), Ends: map[string]int{}, Covers: map[string]int{}, Unsupported: map[string]int{},
		Bounds: map[string]int{}, Panics: map[string]int{}, Funcs: map[string]int{}, Stubs: map[string]int{},
		PathSigs: map[string]int{}, ForkSites: map[string]int{},
	}
	var mu sync.Mutex
	cond := sync.NewCond(&mu)
	stack := []workItem{{}}
	active := 0
	stopped := false
	violSeen := map[string]int{}
	var firstErr error

	worker := func() {
		m, err := NewMachine(prog, cfg)
		if err != nil {
			mu.Lock()
			if firstErr == nil {
				firstErr = err
			}
			stopped = true
			cond.Broadcast()
			mu.Unlock()
			return
		}
		defer m.Close()
		for {
			mu.Lock()
			for len(stack) == 0 && active > 0 && !stopped {
				cond.Wait()
			}
			if stopped || (len(stack) == 0 && active == 0) {
				cond.Broadcast()
				mu.Unlock()
				break
			}
			item := stack[len(stack)-1]
			stack = stack[:len(stack)-1]
			active++
			mu.Unlock()

			var res *PathResult
			func() {
				defer func() {
					if r := recover(); r != nil {
						// interpreter bug or unmodelled operation: report as unsupported, never as success
						msg := fmt.Sprintf("internal: %v", r)
						st := string(debug.Stack())
						if ie, ok := r.(internalErr); ok {
							st = ie.stack
							msg = fmt.Sprintf("internal: %v in %s", ie.v, strings.SplitN(ie.stack, "\n", 2)[0])
						}
						if opts.Verbose {
							fmt.Fprintf(os.Stderr, "internal error: %v\n%s\n", r, st)
						}
						// keep the first interp frame for diagnosis
						for _, ln := range strings.Split(st, "\n") {
							if strings.Contains(ln, "/interp/") && !strings.Contains(ln, "explore.go") {
								msg += " @" + strings.TrimSpace(ln)
								break
							}
						}
						res = &PathResult{End: pathEnd{"unsupported", msg}, Unsupported: msg}
					}
				}()
				res = m.RunPath(entry, item)
			}()

			mu.Lock()
			active--
			rep.Paths++
			rep.Ends[res.End.Kind]++
			rep.Decisions += len(res.Decisions)
			rep.Steps += int64(res.Steps)
			rep.Asserts += res.Asserts
			rep.AssertsSym += res.AssertsSym
			rep.Unknowns += res.Unknowns
			for _, c := range res.Covers {
				rep.Covers[c]++
			}
			switch res.End.Kind {
			case "unsupported":
				rep.Unsupported[res.End.Msg]++
			case "bound", "unknown":
				rep.Bounds[res.End.Msg]++
			case "panic":
				rep.Panics[res.End.Msg]++
			}
			for _, v := range res.Violations {
				key := v.Label + "|" + v.Known
				violSeen[key]++
				if violSeen[key] <= 3 {
					rep.Violations = append(rep.Violations, v)
				}
			}
			sig := res.End.Kind + "|" + strings.Join(res.Covers, ",")
			rep.PathSigs[sig]++
			if rep.PathSigs[sig] == 1 && res.End.Kind == "done" && len(res.Violations) == 0 && len(rep.SelfTests) < 16 {
				rep.SelfTests = append(rep.SelfTests, SelfTestCase{Nondet: m.fullWitness(), Covers: res.Covers, Observed: res.Observed, End: res.End.Kind})
			}
			if rep.PathSigs[sig] == 1 && len(rep.Samples) < 12 {
				rep.Samples = append(rep.Samples, Sample{End: res.End.Kind + ":" + res.End.Msg, Decisions: len(res.Decisions),
					Covers: res.Covers, Observed: res.Observed, Witness: m.witness()})
			}
			stack = append(stack, res.NewItems...)
			if (opts.MaxPaths > 0 && rep.Paths >= opts.MaxPaths) || (!opts.Deadline.IsZero() && time.Now().After(opts.Deadline)) {
				if len(stack) > 0 || active > 0 {
					rep.Truncated = true
				}
				stopped = true
			}
			cond.Broadcast()
			mu.Unlock()
		}
		mu.Lock()
		rep.Solver.Add(m.SolverStats())
		for k, v := range m.funcsSeen {
			rep.Funcs[k] += v
		}
		for k, v := range m.stubsSeen {
			rep.Stubs[k] += v
		}
		for k, v := range m.forkSites {
			rep.ForkSites[k] += v
		}
		for _, p := range m.initProblems {
			found := false
			for _, q := range rep.InitProblems {
				if q == p {
					found = true
				}
			}
			if !found {
				rep.InitProblems = append(rep.InitProblems, p)
			}
		}
		mu.Unlock()
	}
	done := make(chan struct{})
	if opts.Verbose {
		go func() {
			tk := time.NewTicker(5 * time.Second)
			defer tk.Stop()
			for {
				select {
				case <-done:
					return
				case <-tk.C:
					mu.Lock()
					fmt.Fprintf(os.Stderr, "  [%s] paths=%d queue=%d active=%d ends=%v unsupported=%d queries~%d\n", time.Since(t0).Round(time.Second), rep.Paths, len(stack), active, rep.Ends, len(rep.Unsupported), rep.Asserts)
					mu.Unlock()
				}
			}
		}()
	}
	var wg sync.WaitGroup
	for i := 0; i < opts.Workers; i++ {
		wg.Add(1)
		go func() { defer wg.Done(); worker() }()
	}
	wg.Wait()
	close(done)
	rep.Wall = time.Since(t0)
	sort.Slice(rep.Violations, func(i, j int) bool { return rep.Violations[i].Label < rep.Violations[j].Label })
	return rep, firstErr
}

func (m *Machine) fullWitness() map[string]uint64 {
	w := map[string]uint64{}
	for _, v := range m.ctx.Vars {
		w[v.Name] = m.model[v.Name]
	}
	for k, v := range m.choiceLog {
		w[k] = v
	}
	return w
}

// witness returns the current model restricted to the path's variables.
func (m *Machine) witness() map[string]uint64 {
	w := map[string]uint64{}
	for i, v := range m.ctx.Vars {
		if i >= 40 {
			break
		}
		w[v.Name] = m.model[v.Name]
	}
	for k, v := range m.choiceLog {
		w[k] = v
	}
	return w
}
