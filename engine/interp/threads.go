package interp

import (
	"fmt"
	"go/types"
	"sort"
	"strings"
	"sync"

	"golang.org/x/tools/go/ssa"
)

// Thread layer: interleavings as explored decisions.
//
// verifapi.Go starts an interpreter thread (a host goroutine that only runs while it holds the
// baton, so the machine state is never touched concurrently). Scheduling points are the lock
// acquisitions (Lock / RLock) made by the files under test named in Config.SyncFiles, thread exit
// and Join; at each of them the next thread is an explored choice among the enabled threads, so
// the DFS over decision vectors covers every interleaving of the synchronisation operations.
// That is complete for the behaviours of a data-race-free program; data-race freedom itself is
// decided on every explored schedule by a happens-before (vector clock) detector over the memory
// cells read and written by the threads. A schedule with no enabled thread is a deadlock.

type vclock []uint32

func (v vclock) get(i int) uint32 {
	if i < len(v) {
		return v[i]
	}
	return 0
}

func (v vclock) join(o vclock) vclock {
	if len(o) > len(v) {
		n := make(vclock, len(o))
		copy(n, v)
		v = n
	}
	for i, c := range o {
		if c > v[i] {
			v[i] = c
		}
	}
	return v
}

func (v vclock) clone() vclock { return append(vclock(nil), v...) }

type thread struct {
	id         int
	name       string
	wake       chan struct{}
	done       bool
	vc         vclock
	waitMu     *Value
	waitKind   string // "", "Lock", "RLock", "join"
	savedCur   *frame
	savedDepth int
}

type mutexState struct {
	writer  int // thread id, -1 when free
	readers map[int]int
	relVC   vclock // released by writers
	rdVC    vclock // released by readers
}

type shadowCell struct {
	wT     int
	wC     uint32
	wWhere string
	reads  map[int]uint32
	rWhere map[int]string
}

type threadLayer struct {
	prefix   string
	threads  []*thread
	cur      *thread
	mus      map[*Value]*mutexState
	shadow   map[interface{}]*shadowCell
	aborting bool
	abortVal interface{}
	exited   sync.WaitGroup
	schedNo  int
	raceSeen map[string]bool
	tracking bool
}

func (m *Machine) threadLayer() *threadLayer {
	if m.tl == nil {
		main := &thread{id: 0, name: "main", wake: make(chan struct{}, 1), vc: vclock{1}}
		m.tl = &threadLayer{prefix: "threads", threads: []*thread{main}, cur: main,
			mus: map[*Value]*mutexState{}, shadow: map[interface{}]*shadowCell{}, raceSeen: map[string]bool{}}
	}
	return m.tl
}

// abortThreads ends the parked threads of a finished path.
func (m *Machine) abortThreads() {
	tl := m.tl
	if tl == nil {
		return
	}
	tl.aborting = true
	for _, t := range tl.threads {
		if t.id != 0 && !t.done {
			select {
			case t.wake <- struct{}{}:
			default:
			}
		}
	}
	tl.exited.Wait()
	m.tl = nil
}

func (m *Machine) threadGo(name string, fn Value) {
	tl := m.threadLayer()
	par := tl.cur
	t := &thread{id: len(tl.threads), name: name, wake: make(chan struct{}, 1)}
	t.vc = par.vc.clone()
	for len(t.vc) <= t.id {
		t.vc = append(t.vc, 0)
	}
	t.vc[t.id] = 1
	par.vc[par.id]++
	tl.threads = append(tl.threads, t)
	tl.tracking = true
	tl.exited.Add(1)
	go func() {
		defer tl.exited.Done()
		<-t.wake
		if tl.aborting {
			t.done = true
			return
		}
		defer func() {
			if r := recover(); r != nil {
				t.done = true
				if pe, ok := r.(pathEnd); ok && pe.Kind == "thread-abort" {
					return
				}
				// the path ends (or the target panicked) in this thread: hand the reason to main
				tl.abortVal = r
				tl.aborting = true
				tl.threads[0].wake <- struct{}{}
			}
		}()
		m.call(nil, fn, nil, nil)
		t.done = true
		m.schedule()
	}()
}

func (tl *threadLayer) enabled(t *thread) bool {
	switch t.waitKind {
	case "":
		return true
	case "Lock":
		st := tl.mus[t.waitMu]
		return st == nil || (st.writer < 0 && len(st.readers) == 0)
	case "RLock":
		st := tl.mus[t.waitMu]
		return st == nil || st.writer < 0
	case "join":
		for _, o := range tl.threads {
			if o != t && !o.done {
				return false
			}
		}
		return true
	}
	return true
}

// schedule is a scheduling point of the current thread.
func (m *Machine) schedule() {
	tl := m.tl
	cur := tl.cur
	var en []*thread
	if !cur.done && tl.enabled(cur) {
		en = append(en, cur) // first alternative: no preemption
	}
	for _, t := range tl.threads {
		if t != cur && !t.done && tl.enabled(t) {
			en = append(en, t)
		}
	}
	if len(en) == 0 {
		var desc []string
		for _, t := range tl.threads {
			if !t.done {
				desc = append(desc, fmt.Sprintf("%s waits for %s", t.name, t.waitKind))
			}
		}
		if len(desc) == 0 {
			return // everything finished (last thread exiting after main)
		}
		m.res.Observed = append(m.res.Observed, "deadlock="+strings.Join(desc, "; "))
		m.assert(tl.prefix+"/no-deadlock", m.ctx.False)
		m.endPath("stop", "deadlock")
	}
	i := 0
	if len(en) > 1 {
		i = m.choice(len(en))
	}
	next := en[i]
	m.choiceLog[m.freshName("sched")] = uint64(next.id)
	tl.schedNo++
	if next == cur {
		return
	}
	cur.savedCur, cur.savedDepth = m.cur, m.depth
	tl.cur = next
	m.cur, m.depth = next.savedCur, next.savedDepth
	next.wake <- struct{}{}
	if cur.done {
		return
	}
	<-cur.wake
	if tl.aborting {
		if cur.id == 0 {
			panic(tl.abortVal)
		}
		panic(pathEnd{Kind: "thread-abort"})
	}
}

func (m *Machine) threadJoin() {
	tl := m.tl
	if tl == nil {
		return
	}
	cur := tl.cur
	cur.waitKind = "join"
	for !tl.enabled(cur) {
		m.schedule()
	}
	cur.waitKind = ""
	for _, t := range tl.threads {
		if t != cur {
			cur.vc = cur.vc.join(t.vc)
		}
	}
	tl.tracking = false
}

func (tl *threadLayer) mutex(mu *Value) *mutexState {
	st := tl.mus[mu]
	if st == nil {
		st = &mutexState{writer: -1, readers: map[int]int{}}
		tl.mus[mu] = st
	}
	return st
}

// inSyncFiles reports whether the function calling the lock operation is code under test whose
// lock operations are scheduling points (and are instrumented in the native replay build).
func (m *Machine) inSyncFiles(fr *frame) bool {
	for f := fr.caller; f != nil; f = f.caller {
		if f.fn.Synthetic != "" {
			continue
		}
		pos := m.prog.Fset.Position(f.fn.Pos())
		for _, sf := range m.cfg.SyncFiles {
			if strings.HasSuffix(pos.Filename, sf) {
				return true
			}
		}
		return false
	}
	return false
}

func (m *Machine) threadSync(fr *frame, op string, mu *Value) {
	tl := m.tl
	if tl == nil {
		return
	}
	t := tl.cur
	st := tl.mutex(mu)
	switch op {
	case "Lock", "RLock":
		t.waitMu, t.waitKind = mu, op
		if m.inSyncFiles(fr) || !tl.enabled(t) {
			m.schedule()
		}
		t.waitMu, t.waitKind = nil, ""
		if op == "Lock" {
			st.writer = t.id
			t.vc = t.vc.join(st.relVC).join(st.rdVC)
		} else {
			st.readers[t.id]++
			t.vc = t.vc.join(st.relVC)
		}
	case "Unlock":
		if st.writer != t.id {
			if st.writer < 0 {
				m.runtimePanic("fatal error: sync: unlock of unlocked mutex")
			}
		}
		st.writer = -1
		st.relVC = st.relVC.join(t.vc)
		t.vc[t.id]++
	case "RUnlock":
		if st.readers[t.id] <= 0 {
			m.runtimePanic("fatal error: sync: RUnlock of unlocked RWMutex")
		}
		st.readers[t.id]--
		if st.readers[t.id] == 0 {
			delete(st.readers, t.id)
		}
		st.rdVC = st.rdVC.join(t.vc)
		t.vc[t.id]++
	}
}

// ---- happens-before race detection ----

func (m *Machine) where() string {
	for f := m.cur; f != nil; f = f.caller {
		if f.fn.Synthetic == "" && f.fn.Pkg != nil {
			name := f.fn.String()
			if f.fn.Parent() != nil || strings.Contains(name, "verifapi") {
				continue
			}
			return name
		}
	}
	return "?"
}

func (m *Machine) access(key interface{}, write bool) {
	tl := m.tl
	if tl == nil || !tl.tracking {
		return
	}
	t := tl.cur
	sc := tl.shadow[key]
	if sc == nil {
		sc = &shadowCell{wT: -1}
		tl.shadow[key] = sc
	}
	if sc.wT >= 0 && sc.wT != t.id && sc.wC > t.vc.get(sc.wT) {
		m.reportRace(sc.wWhere, "write", write)
	}
	if write {
		for rt, rc := range sc.reads {
			if rt != t.id && rc > t.vc.get(rt) {
				m.reportRace(sc.rWhere[rt], "read", true)
			}
		}
		sc.wT, sc.wC, sc.wWhere = t.id, t.vc[t.id], m.where()
		sc.reads, sc.rWhere = nil, nil
		return
	}
	if sc.reads == nil {
		sc.reads, sc.rWhere = map[int]uint32{}, map[int]string{}
	}
	if _, ok := sc.reads[t.id]; !ok {
		sc.rWhere[t.id] = m.where()
	}
	sc.reads[t.id] = t.vc[t.id]
}

func (m *Machine) reportRace(otherWhere, otherKind string, write bool) {
	tl := m.tl
	kind := "read"
	if write {
		kind = "write"
	}
	pair := []string{otherKind + " in " + otherWhere, kind + " in " + m.where()}
	sort.Strings(pair)
	desc := strings.Join(pair, " || ")
	if tl.raceSeen[desc] {
		return
	}
	tl.raceSeen[desc] = true
	m.res.Observed = append(m.res.Observed, "race="+desc)
	m.res.Races = append(m.res.Races, desc)
	m.assert(tl.prefix+"/no-data-race", m.ctx.False)
}

// accessCell records an access to a cell and, for aggregates held by value, to its parts.
func (m *Machine) accessCell(addr *Value, write bool) {
	if m.tl == nil || !m.tl.tracking || addr == nil {
		return
	}
	m.access(addr, write)
	switch v := (*addr).(type) {
	case Struct:
		for i := range v {
			m.accessCell(&v[i], write)
		}
	case Array:
		for i := range v {
			m.accessCell(&v[i], write)
		}
	}
}

var _ = types.Typ
var _ *ssa.Function
