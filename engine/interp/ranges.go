package interp

import "verif/engine/sym"

// Interval pre-check of branch conditions. Variables created by NondetByteRange / NondetIntRange with
// concrete limits carry their (unsigned, non-wrapping) range; a comparison of such a variable (possibly
// zero-extended) with a constant that the whole range decides one way needs no solver query. Sound:
// the range is an assumption already on the path condition.

type urange struct{ lo, hi uint64 }

func (m *Machine) noteRange(v *sym.Term, lo, hi uint64) {
	if m.ranges == nil {
		m.ranges = map[*sym.Term]urange{}
	}
	m.ranges[v] = urange{lo, hi}
}

func (m *Machine) rangeOf(t *sym.Term) (urange, bool) {
	for t.Op == sym.OZext {
		t = t.Args[0]
	}
	if t.Op == sym.OConst {
		return urange{t.Val, t.Val}, true
	}
	r, ok := m.ranges[t]
	return r, ok
}

// rangeDecide returns (value, true) when the intervals of both operands decide the comparison.
func (m *Machine) rangeDecide(c *sym.Term) (bool, bool) {
	if len(m.ranges) == 0 {
		return false, false
	}
	switch c.Op {
	case sym.ONot:
		v, ok := m.rangeDecide(c.Args[0])
		return !v, ok
	case sym.OEq, sym.OUlt, sym.OUle:
		if c.Args[0].W == 0 {
			return false, false
		}
		a, ok1 := m.rangeOf(c.Args[0])
		b, ok2 := m.rangeOf(c.Args[1])
		if !ok1 || !ok2 {
			return false, false
		}
		switch c.Op {
		case sym.OEq:
			if a.hi < b.lo || b.hi < a.lo {
				return false, true
			}
			if a.lo == a.hi && b.lo == b.hi && a.lo == b.lo {
				return true, true
			}
		case sym.OUlt:
			if a.hi < b.lo {
				return true, true
			}
			if a.lo >= b.hi {
				return false, true
			}
		case sym.OUle:
			if a.hi <= b.lo {
				return true, true
			}
			if a.lo > b.hi {
				return false, true
			}
		}
	}
	return false, false
}
