package interp

import (
	"fmt"
	"go/constant"
	"go/token"
	"go/types"
	"os"
	"runtime/debug"
	"strings"
	"unsafe"

	"golang.org/x/tools/go/ssa"

	"verif/engine/sym"
)

type deferred struct {
	fn    Value
	args  []Value
	instr *ssa.Defer
	tail  *deferred
}

type frame struct {
	m         *Machine
	caller    *frame
	fn        *ssa.Function
	block     *ssa.BasicBlock
	prevBlock *ssa.BasicBlock
	env       map[ssa.Value]Value
	locals    []Value
	defers    *deferred
	result    Value
	panicking bool
	panicV    interface{}
	visits    map[*ssa.BasicBlock]int
	phitemps  []Value
}

func (fr *frame) get(key ssa.Value) Value {
	switch key := key.(type) {
	case nil:
		return nil
	case *ssa.Function:
		return key
	case *ssa.Builtin:
		return key
	case *ssa.Const:
		return fr.m.constValue(key)
	case *ssa.Global:
		return fr.m.global(key)
	}
	if r, ok := fr.env[key]; ok {
		return r
	}
	panic(fmt.Sprintf("get: no value for %T: %v in %s", key, key.Name(), fr.fn))
}

func (m *Machine) constValue(c *ssa.Const) Value {
	t := c.Type()
	if c.Value == nil {
		return m.zero(t)
	}
	if tp, ok := t.(*types.TypeParam); ok {
		_ = tp
		panic("const of type parameter")
	}
	if b, ok := t.Underlying().(*types.Basic); ok {
		switch {
		case b.Info()&types.IsBoolean != 0:
			return m.ctx.Bool(constant.BoolVal(c.Value))
		case b.Info()&types.IsInteger != 0:
			w := m.width(b)
			v := constant.ToInt(c.Value)
			if i, ok := constant.Int64Val(v); ok {
				return m.ctx.Const(uint64(i), w)
			}
			u, _ := constant.Uint64Val(v)
			return m.ctx.Const(u, w)
		case b.Info()&types.IsFloat != 0:
			f, _ := constant.Float64Val(constant.ToFloat(c.Value))
			if b.Kind() == types.Float32 {
				return float64(float32(f))
			}
			return f
		case b.Info()&types.IsComplex != 0:
			re, _ := constant.Float64Val(constant.Real(c.Value))
			im, _ := constant.Float64Val(constant.Imag(c.Value))
			return complex(re, im)
		case b.Info()&types.IsString != 0:
			if c.Value.Kind() == constant.String {
				return m.mkStr(constant.StringVal(c.Value))
			}
			// string(rune constant)
			i, _ := constant.Int64Val(c.Value)
			return m.mkStr(string(rune(i)))
		}
	}
	panic(fmt.Sprintf("constValue: unexpected %v : %v", c, t))
}

// ---- runtime panics of the target ----

func (m *Machine) runtimePanic(msg string) {
	if m.cfg.Trace {
		fmt.Fprintf(os.Stderr, "  runtime panic %q in:\n", msg)
		for f, i := m.cur, 0; f != nil && i < 12; f, i = f.caller, i+1 {
			fmt.Fprintf(os.Stderr, "     %s\n", f.fn.String())
		}
	}
	var t types.Type
	func() {
		defer func() { recover() }()
		t = m.lookupType("runtime", "errorString")
	}()
	if t == nil {
		t = types.Typ[types.String]
	}
	panic(targetPanic{Iface{T: t, V: m.mkStr(msg)}})
}

// ---- calls ----

func (m *Machine) call(caller *frame, fn Value, args []Value, site *ssa.CallCommon) Value {
	switch fn := fn.(type) {
	case *ssa.Function:
		if fn == nil {
			m.runtimePanic("invalid memory address or nil pointer dereference (call of nil func)")
		}
		return m.callFunction(caller, fn, args, nil)
	case *Closure:
		if fn == nil {
			m.runtimePanic("invalid memory address or nil pointer dereference (call of nil func)")
		}
		return m.callFunction(caller, fn.Fn, args, fn.Env)
	case *ssa.Builtin:
		return m.callBuiltin(caller, fn, args, site)
	case Native:
		if f, ok := fn.V.(func(m *Machine, args []Value) Value); ok {
			return f(m, args)
		}
	}
	panic(fmt.Sprintf("cannot call %T", fn))
}

func (m *Machine) callTolerant(fr *frame, fn Value, args []Value, instr *ssa.Call) (res Value) {
	defer func() {
		if r := recover(); r != nil {
			pe, isPE := r.(pathEnd)
			_, isIE := r.(internalErr)
			_, isTP := r.(targetPanic)
			if (isPE && pe.Kind == "unsupported") || isIE || isTP {
				m.initProblems = append(m.initProblems, fmt.Sprintf("%s: initialiser call %s skipped: %v", fr.fn.Pkg.Pkg.Path(), describeFn(fn), r))
				if instr.Type() != nil {
					if tup, ok := instr.Type().(*types.Tuple); ok && tup.Len() == 0 {
						res = nil
						return
					}
					res = m.zero(instr.Type())
				}
				return
			}
			panic(r)
		}
	}()
	return m.call(fr, fn, args, &instr.Call)
}

func (m *Machine) callFunction(caller *frame, fn *ssa.Function, args []Value, env []Value) Value {
	intr, cached := m.fnCache[fn]
	if !cached {
		intr = m.findIntrinsic(fn)
		m.fnCache[fn] = intr
	}
	if intr != nil {
		fr := &frame{m: m, caller: caller, fn: fn}
		return intr(m, fr, args)
	}
	return m.callBody(caller, fn, args, env)
}

// callRealBody lets an intrinsic fall back to the function's own code.
func (m *Machine) callRealBody(fr *frame, args []Value) Value {
	return m.callBody(fr.caller, fr.fn, args, nil)
}

func (m *Machine) callBody(caller *frame, fn *ssa.Function, args []Value, env []Value) Value {
	if caller != nil && fn.Synthetic == "package initializer" {
		return nil // initialisers of imported packages run on demand (first global access)
	}
	if fn.Blocks == nil {
		if fn.Pkg != nil {
			fn.Pkg.Build()
		}
		if fn.Blocks == nil {
			m.unsupported("no code for function %s", fn.String())
		}
	}
	if fn.TypeParams().Len() > 0 && len(fn.TypeArgs()) == 0 {
		m.unsupported("generic function body not instantiated: %s", fn.String())
	}
	m.depth++
	if m.cfg.CallDepthCrash > 0 && m.depth > m.cfg.CallDepthCrash {
		m.depth--
		m.runtimePanic("fatal error: stack overflow (call nesting deeper than " + fmt.Sprint(m.cfg.CallDepthCrash) + ")")
	}
	if m.depth > 400 {
		m.endPath("bound", "call depth exceeded in "+fn.String())
	}
	defer func() { m.depth-- }()
	m.funcsSeen[fn.String()]++

	fr := &frame{m: m, caller: caller, fn: fn}
	prevCur := m.cur
	m.cur = fr
	defer func() { m.cur = prevCur }()
	fr.env = make(map[ssa.Value]Value, 16)
	fr.block = fn.Blocks[0]
	fr.locals = make([]Value, len(fn.Locals))
	for i, l := range fn.Locals {
		fr.locals[i] = m.zero(deref(l.Type()))
		fr.env[l] = &fr.locals[i]
	}
	for i, p := range fn.Params {
		fr.env[p] = args[i]
	}
	for i, fv := range fn.FreeVars {
		fr.env[fv] = env[i]
	}
	for fr.block != nil {
		fr.run()
	}
	return fr.result
}

func (fr *frame) run() {
	defer func() {
		if fr.block == nil {
			return // normal return
		}
		r := recover()
		if _, ok := r.(targetPanic); !ok {
			// pathEnd or interpreter bug: propagate without running target defers
			switch r.(type) {
			case pathEnd, internalErr:
			default:
				r = internalErr{r, fr.fn.String() + "\n" + string(debug.Stack())}
			}
			panic(r)
		}
		fr.panicking = true
		fr.panicV = r
		fr.runDefers()
		// recovered
		fr.block = fr.fn.Recover
		if fr.block == nil {
			fr.result = fr.m.zeroResults(fr.fn)
		}
	}()
	m := fr.m
	for {
		if fr.visits == nil {
			fr.visits = map[*ssa.BasicBlock]int{}
		}
		fr.visits[fr.block]++
		if fr.visits[fr.block] > m.cfg.MaxBlockVisits {
			m.endPath("bound", fmt.Sprintf("block visit bound exceeded in %s block %d", fr.fn, fr.block.Index))
		}
		instrs := fr.execPhis()
		for _, instr := range instrs {
			m.steps++
			if m.steps > m.cfg.MaxSteps {
				m.endPath("bound", "instruction budget exhausted")
			}
			if fr.visit(instr) == kReturn {
				return
			}
		}
	}
}

func (m *Machine) zeroResults(fn *ssa.Function) Value {
	res := fn.Signature.Results()
	switch res.Len() {
	case 0:
		return nil
	case 1:
		return m.zero(res.At(0).Type())
	}
	return m.zero(res)
}

func (fr *frame) execPhis() []ssa.Instruction {
	first := -1
	for i, instr := range fr.block.Instrs {
		if _, ok := instr.(*ssa.Phi); !ok {
			first = i
			break
		}
	}
	if first > 0 {
		phis := fr.block.Instrs[:first]
		predIndex := -1
		for i, p := range fr.block.Preds {
			if p == fr.prevBlock {
				predIndex = i
				break
			}
		}
		fr.phitemps = fr.phitemps[:0]
		for _, phi := range phis {
			fr.phitemps = append(fr.phitemps, fr.get(phi.(*ssa.Phi).Edges[predIndex]))
		}
		for i, phi := range phis {
			fr.env[phi.(*ssa.Phi)] = fr.phitemps[i]
		}
	}
	return fr.block.Instrs[first:]
}

func (fr *frame) runDefers() {
	for d := fr.defers; d != nil; d = d.tail {
		fr.runDefer(d)
	}
	fr.defers = nil
	if fr.panicking {
		panic(fr.panicV)
	}
}

func (fr *frame) runDefer(d *deferred) {
	var ok bool
	defer func() {
		if !ok {
			r := recover()
			if _, isT := r.(targetPanic); !isT {
				panic(r)
			}
			// deferred call started a new panic
			fr.panicking = true
			fr.panicV = r
		}
	}()
	fr.m.call(fr, d.fn, d.args, &d.instr.Call)
	ok = true
}

func (m *Machine) doRecover(caller *frame) Value {
	// recover() is effective one level beneath the deferred function
	if caller != nil && !caller.panicking && caller.caller != nil && caller.caller.panicking {
		caller.caller.panicking = false
		p := caller.caller.panicV
		caller.caller.panicV = nil
		if tp, ok := p.(targetPanic); ok {
			if m.cfg.Trace {
				fmt.Fprintf(os.Stderr, "  target recovered panic: %s\n", m.DebugString(tp.V))
			}
			return tp.V
		}
		panic(fmt.Sprintf("unexpected panic %T in recover", p))
	}
	return Iface{}
}

type internalErr struct {
	v     interface{}
	stack string
}

func (e internalErr) String() string { return fmt.Sprint(e.v) }

type continuation int

const (
	kNext continuation = iota
	kReturn
	kJump
)

func (fr *frame) prepareCall(call *ssa.CallCommon) (fn Value, args []Value) {
	m := fr.m
	v := fr.get(call.Value)
	if call.Method == nil {
		fn = v
	} else {
		recv, ok := v.(Iface)
		if !ok {
			panic(fmt.Sprintf("invoke on non-interface %T", v))
		}
		if recv.T == nil {
			m.runtimePanic("invalid memory address or nil pointer dereference (method " + call.Method.Name() + " invoked on nil interface)")
		}
		if nt, ok := recv.T.(*types.Named); ok && nativeTypes[nt] != "" {
			impl := m.nativeMethod(nativeTypes[nt], call.Method.Name())
			fn = impl
			args = append(args, recv.V)
			for _, a := range call.Args {
				args = append(args, fr.get(a))
			}
			return
		}
		if recv.T == rtypeMarker {
			fn = m.rtypeMethod(call.Method.Name())
			args = append(args, recv.V)
			for _, a := range call.Args {
				args = append(args, fr.get(a))
			}
			return
		}
		f := m.lookupMethod(recv.T, call.Method)
		if f == nil {
			panic(fmt.Sprintf("method set for dynamic type %v does not contain %s", recv.T, call.Method))
		}
		fn = f
		args = append(args, recv.V)
	}
	for _, a := range call.Args {
		args = append(args, fr.get(a))
	}
	return
}

func (m *Machine) lookupMethod(t types.Type, meth *types.Func) *ssa.Function {
	return m.prog.LookupMethod(t, meth.Pkg(), meth.Name())
}

func (fr *frame) visit(instr ssa.Instruction) continuation {
	m := fr.m
	switch instr := instr.(type) {
	case *ssa.DebugRef:

	case *ssa.UnOp:
		fr.env[instr] = m.unop(fr, instr, fr.get(instr.X))

	case *ssa.BinOp:
		fr.env[instr] = m.binop(instr.Op, instr.X.Type(), fr.get(instr.X), fr.get(instr.Y), instr.Y.Type())

	case *ssa.Call:
		fn, args := fr.prepareCall(&instr.Call)
		if m.inInit && fr.fn.Synthetic == "package initializer" {
			// a package-level initialiser that needs an unmodelled operation leaves its variable
			// zero-valued instead of aborting the initialisation of the whole package
			fr.env[instr] = m.callTolerant(fr, fn, args, instr)
		} else {
			fr.env[instr] = m.call(fr, fn, args, &instr.Call)
		}

	case *ssa.ChangeInterface:
		fr.env[instr] = fr.get(instr.X)

	case *ssa.ChangeType:
		fr.env[instr] = fr.get(instr.X)

	case *ssa.Convert:
		fr.env[instr] = m.conv(instr.Type(), instr.X.Type(), fr.get(instr.X))

	case *ssa.SliceToArrayPointer:
		x := fr.get(instr.X).(Slice)
		n := int(instr.Type().Underlying().(*types.Pointer).Elem().Underlying().(*types.Array).Len())
		if len(x.A) < n {
			m.runtimePanic("cannot convert slice to array pointer: length too small")
		}
		if x.Nil {
			fr.env[instr] = (*Value)(nil)
		} else {
			m.unsupported("slice to array pointer conversion")
		}

	case *ssa.MakeInterface:
		fr.env[instr] = Iface{T: types.Unalias(instr.X.Type()), V: fr.get(instr.X)}

	case *ssa.Extract:
		fr.env[instr] = fr.get(instr.Tuple).(Tuple)[instr.Index]

	case *ssa.Slice:
		fr.env[instr] = m.sliceOp(instr, fr.get(instr.X), fr.get(instr.Low), fr.get(instr.High), fr.get(instr.Max))

	case *ssa.Return:
		switch len(instr.Results) {
		case 0:
		case 1:
			fr.result = fr.get(instr.Results[0])
		default:
			res := make(Tuple, 0, len(instr.Results))
			for _, r := range instr.Results {
				res = append(res, fr.get(r))
			}
			fr.result = res
		}
		fr.block = nil
		return kReturn

	case *ssa.RunDefers:
		fr.runDefers()

	case *ssa.Panic:
		panic(targetPanic{fr.get(instr.X)})

	case *ssa.Send:
		ch := fr.get(instr.Chan).(*ChanV)
		m.chanSend(ch, fr.get(instr.X))

	case *ssa.Store:
		addr := fr.get(instr.Addr).(*Value)
		if addr == nil {
			m.runtimePanic("invalid memory address or nil pointer dereference (store)")
		}
		m.store(addr, fr.get(instr.Val))

	case *ssa.If:
		cond := fr.get(instr.Cond).(*sym.Term)
		succ := 1
		if m.branch(cond) {
			succ = 0
		}
		fr.prevBlock, fr.block = fr.block, fr.block.Succs[succ]
		return kJump

	case *ssa.Jump:
		fr.prevBlock, fr.block = fr.block, fr.block.Succs[0]
		return kJump

	case *ssa.Defer:
		fn, args := fr.prepareCall(&instr.Call)
		target := fr
		if instr.DeferStack != nil {
			if n, ok := fr.get(instr.DeferStack).(Native); ok {
				if tf, ok := n.V.(*frame); ok {
					target = tf
				}
			}
		}
		target.defers = &deferred{fn: fn, args: args, instr: instr, tail: target.defers}

	case *ssa.Go:
		fn, args := fr.prepareCall(&instr.Call)
		m.spawn(fr, fn, args, &instr.Call)

	case *ssa.MakeChan:
		n := m.concInt(fr.get(instr.Size), "make(chan) size")
		fr.env[instr] = &ChanV{cap: int(n)}

	case *ssa.Alloc:
		var addr *Value
		if instr.Heap {
			addr = new(Value)
			fr.env[instr] = addr
		} else {
			addr = fr.env[instr].(*Value)
		}
		*addr = m.zero(deref(instr.Type()))

	case *ssa.MakeSlice:
		capN := m.concInt(fr.get(instr.Cap), "make([]T) cap")
		lenN := m.concInt(fr.get(instr.Len), "make([]T) len")
		if lenN < 0 || capN < lenN || capN > 1<<24 {
			m.runtimePanic("makeslice: len out of range")
		}
		s := make([]Value, capN)
		tElt := instr.Type().Underlying().(*types.Slice).Elem()
		for i := range s {
			s[i] = m.zero(tElt)
		}
		fr.env[instr] = Slice{A: s[:lenN]}

	case *ssa.MakeMap:
		mt := instr.Type().Underlying().(*types.Map)
		fr.env[instr] = &MapV{KT: mt.Key(), VT: mt.Elem()}

	case *ssa.Range:
		fr.env[instr] = m.rangeIter(fr.get(instr.X), instr.X.Type())

	case *ssa.Next:
		fr.env[instr] = fr.get(instr.Iter).(iterator).next(m)

	case *ssa.FieldAddr:
		p := fr.get(instr.X).(*Value)
		if p == nil {
			m.runtimePanic("invalid memory address or nil pointer dereference (field " + fieldName(instr) + ")")
		}
		fr.env[instr] = &(*p).(Struct)[instr.Field]

	case *ssa.Field:
		fr.env[instr] = fr.get(instr.X).(Struct)[instr.Field]

	case *ssa.IndexAddr:
		x := fr.get(instr.X)
		idx := fr.get(instr.Index).(*sym.Term)
		switch x := x.(type) {
		case Slice:
			i := m.indexCheck(idx, len(x.A), isSigned(instr.Index.Type()))
			fr.env[instr] = &x.A[i]
		case *Value:
			if x == nil {
				m.runtimePanic("invalid memory address or nil pointer dereference (index)")
			}
			a := (*x).(Array)
			i := m.indexCheck(idx, len(a), isSigned(instr.Index.Type()))
			fr.env[instr] = &a[i]
		default:
			panic(fmt.Sprintf("unexpected x type in IndexAddr: %T", x))
		}

	case *ssa.Index:
		x := fr.get(instr.X)
		idx := fr.get(instr.Index).(*sym.Term)
		switch x := x.(type) {
		case Array:
			fr.env[instr] = m.indexRead([]Value(x), idx, isSigned(instr.Index.Type()))
		case Str:
			fr.env[instr] = m.strIndex(x, idx, isSigned(instr.Index.Type()))
		default:
			panic(fmt.Sprintf("unexpected x type in Index: %T", x))
		}

	case *ssa.Lookup:
		fr.env[instr] = m.lookupOp(instr, fr.get(instr.X), fr.get(instr.Index))

	case *ssa.MapUpdate:
		mp := fr.get(instr.Map).(*MapV)
		if mp == nil {
			m.runtimePanic("assignment to entry in nil map")
		}
		m.mapSet(mp, fr.get(instr.Key), fr.get(instr.Value))

	case *ssa.TypeAssert:
		fr.env[instr] = m.typeAssert(instr, fr.get(instr.X).(Iface))

	case *ssa.MakeClosure:
		var bindings []Value
		for _, b := range instr.Bindings {
			bindings = append(bindings, fr.get(b))
		}
		fr.env[instr] = &Closure{instr.Fn.(*ssa.Function), bindings}

	case *ssa.Select:
		fr.env[instr] = m.selectOp(fr, instr)

	case *ssa.MultiConvert:
		m.unsupported("MultiConvert")

	default:
		panic(fmt.Sprintf("unexpected instruction: %T", instr))
	}
	return kNext
}

func fieldName(instr *ssa.FieldAddr) string {
	st, ok := deref(instr.X.Type()).Underlying().(*types.Struct)
	if !ok {
		return "?"
	}
	return st.Field(instr.Field).Name()
}

// store writes through a pointer, notifying the write monitor.
func (m *Machine) store(addr *Value, v Value) {
	if m.watch != nil {
		m.checkWatch(addr)
	}
	if m.tl != nil {
		m.accessCell(addr, true)
	}
	storeInto(addr, v)
	if m.tl != nil {
		m.accessCell(addr, true) // the parts of a freshly stored aggregate
	}
}

func (m *Machine) checkWatch(addr *Value) {
	if what, ok := m.watch[addr]; ok {
		m.watchHits = append(m.watchHits, what)
	}
}

// load reads through a pointer.
func (m *Machine) load(addr *Value) Value {
	if addr == nil {
		m.runtimePanic("invalid memory address or nil pointer dereference")
	}
	if m.tl != nil {
		m.accessCell(addr, false)
	}
	return copyVal(*addr)
}

// concInt turns an integer value into a concrete one, forking over values.
func (m *Machine) concInt(v Value, what string) int64 {
	if v == nil {
		return 0
	}
	t := v.(*sym.Term)
	if t.IsConst() {
		return t.Int(true)
	}
	u := m.concretize(t, what)
	return sym.SignExtend(u, t.W)
}

// indexCheck returns a concrete index in [0,n) or raises the Go panic.
func (m *Machine) indexCheck(idx *sym.Term, n int, signed bool) int {
	if idx.IsConst() {
		i := idx.Int(signed)
		if i < 0 || i >= int64(n) || (!signed && idx.Val >= uint64(n)) {
			m.runtimePanic(fmt.Sprintf("index out of range [%d] with length %d", i, n))
		}
		return int(i)
	}
	inRange := m.ctx.Ult(idx, m.ctx.Const(uint64(n), idx.W))
	if !m.branch(inRange) {
		m.runtimePanic(fmt.Sprintf("index out of range [symbolic] with length %d", n))
	}
	return int(m.concretize(idx, "index"))
}

// indexRead reads a[idx] building an ite-chain for symbolic indices of term elements.
func (m *Machine) indexRead(a []Value, idx *sym.Term, signed bool) Value {
	if idx.IsConst() {
		return copyVal(a[m.indexCheck(idx, len(a), signed)])
	}
	inRange := m.ctx.Ult(idx, m.ctx.Const(uint64(len(a)), idx.W))
	if !m.branch(inRange) {
		m.runtimePanic(fmt.Sprintf("index out of range [symbolic] with length %d", len(a)))
	}
	allTerms := true
	for _, e := range a {
		if _, ok := e.(*sym.Term); !ok {
			allTerms = false
			break
		}
	}
	if allTerms && len(a) > 0 && len(a) <= 512 {
		r := a[len(a)-1].(*sym.Term)
		for i := len(a) - 2; i >= 0; i-- {
			r = m.ctx.Ite(m.ctx.Eq(idx, m.ctx.Const(uint64(i), idx.W)), a[i].(*sym.Term), r)
		}
		return r
	}
	return copyVal(a[m.concretize(idx, "index")])
}

func (m *Machine) strIndex(s Str, idx *sym.Term, signed bool) Value {
	if idx.IsConst() {
		i := idx.Int(signed)
		if i < 0 || i >= int64(len(s.B)) {
			m.runtimePanic(fmt.Sprintf("index out of range [%d] with length %d", i, len(s.B)))
		}
		return s.B[i]
	}
	inRange := m.ctx.Ult(idx, m.ctx.Const(uint64(len(s.B)), idx.W))
	if !m.branch(inRange) {
		m.runtimePanic(fmt.Sprintf("index out of range [symbolic] with length %d", len(s.B)))
	}
	r := s.B[len(s.B)-1]
	for i := len(s.B) - 2; i >= 0; i-- {
		r = m.ctx.Ite(m.ctx.Eq(idx, m.ctx.Const(uint64(i), idx.W)), s.B[i], r)
	}
	return r
}

func (m *Machine) sliceOp(instr *ssa.Slice, x, lo, hi, max Value) Value {
	var length, capacity int
	var str Str
	var sl Slice
	var arr Array
	kind := 0
	switch x := x.(type) {
	case Str:
		str = x
		length, capacity = len(x.B), len(x.B)
		kind = 1
	case Slice:
		sl = x
		length, capacity = len(x.A), cap(x.A)
		kind = 2
	case *Value:
		if x == nil {
			m.runtimePanic("invalid memory address or nil pointer dereference (slice of nil array pointer)")
		}
		arr = (*x).(Array)
		length, capacity = len(arr), len(arr)
		kind = 3
	default:
		panic(fmt.Sprintf("slice of %T", x))
	}
	l := int64(0)
	if lo != nil {
		l = m.concInt(lo, "slice low")
	}
	h := int64(length)
	if hi != nil {
		h = m.concInt(hi, "slice high")
	}
	mx := int64(capacity)
	if max != nil {
		mx = m.concInt(max, "slice max")
	}
	if l < 0 || h < l || mx < h || mx > int64(capacity) {
		m.runtimePanic(fmt.Sprintf("slice bounds out of range [%d:%d:%d] with capacity %d", l, h, mx, capacity))
	}
	switch kind {
	case 1:
		if h > int64(length) {
			m.runtimePanic(fmt.Sprintf("slice bounds out of range [:%d] with length %d", h, length))
		}
		return Str{str.B[l:h:h]}
	case 2:
		if sl.Nil {
			return Slice{Nil: true}
		}
		return Slice{A: sl.A[:capacity][l:h:mx]}
	default:
		return Slice{A: []Value(arr)[l:h:mx]}
	}
}

func (m *Machine) typeAssert(instr *ssa.TypeAssert, itf Iface) Value {
	var v Value
	err := ""
	if idst, ok := instr.AssertedType.Underlying().(*types.Interface); ok && !isTypeParam(instr.AssertedType) {
		v = itf
		if itf.T == nil {
			err = "interface conversion: interface is nil, not " + instr.AssertedType.String()
		} else if !m.implements(itf.T, idst) {
			err = fmt.Sprintf("interface conversion: %v is not %v: missing method", itf.T, instr.AssertedType)
		}
	} else if itf.T != nil && types.Identical(itf.T, types.Unalias(instr.AssertedType)) {
		v = itf.V
	} else {
		err = fmt.Sprintf("interface conversion: interface is %v, not %v", typeStr(itf.T), instr.AssertedType)
	}
	if err != "" {
		if !instr.CommaOk {
			m.runtimePanic(err)
		}
		return Tuple{m.zero(instr.AssertedType), m.ctx.False}
	}
	if instr.CommaOk {
		return Tuple{v, m.ctx.True}
	}
	return v
}

func typeStr(t types.Type) string {
	if t == nil {
		return "nil"
	}
	return t.String()
}

func isTypeParam(t types.Type) bool {
	_, ok := t.(*types.TypeParam)
	return ok
}

func (m *Machine) implements(t types.Type, i *types.Interface) bool {
	key := "impl:" + t.String() + "|" + i.String()
	if r, ok := m.implCache[key]; ok {
		return r
	}
	r := types.Implements(t, i)
	if m.implCache == nil {
		m.implCache = map[string]bool{}
	}
	m.implCache[key] = r
	return r
}

// ---- builtins ----

func (m *Machine) callBuiltin(caller *frame, fn *ssa.Builtin, args []Value, site *ssa.CallCommon) Value {
	switch fn.Name() {
	case "append":
		if len(args) == 1 {
			return args[0]
		}
		dst := args[0].(Slice)
		var add []Value
		switch a := args[1].(type) {
		case Str:
			for _, b := range a.B {
				add = append(add, b)
			}
		case Slice:
			add = a.A
		default:
			panic(fmt.Sprintf("append of %T", a))
		}
		if len(add) == 0 {
			return dst
		}
		if m.tl != nil {
			for i := range add {
				m.accessCell(&add[i], false)
			}
			for i := range dst.A {
				m.accessCell(&dst.A[i], false)
			}
		}
		n := len(dst.A)
		if n+len(add) <= cap(dst.A) {
			r := dst.A[:n+len(add)]
			for i, v := range add {
				if m.watch != nil {
					m.checkWatch(&r[n+i])
				}
				if m.tl != nil {
					m.accessCell(&r[n+i], true)
				}
				r[n+i] = copyVal(v)
			}
			return Slice{A: r}
		}
		// grow like Go (approximately): double
		newCap := 2 * cap(dst.A)
		if newCap < n+len(add) {
			newCap = n + len(add)
		}
		r := make([]Value, n+len(add), newCap)
		copy(r, dst.A)
		for i, v := range add {
			r[n+i] = copyVal(v)
		}
		// spare capacity must hold zero values of the element type
		var et types.Type
		if site != nil {
			if st, ok := site.Args[0].Type().Underlying().(*types.Slice); ok {
				et = st.Elem()
			}
		}
		full := r[:newCap]
		for i := n + len(add); i < newCap; i++ {
			if et != nil {
				full[i] = m.zero(et)
			}
		}
		return Slice{A: r}

	case "copy":
		dst := args[0].(Slice)
		switch src := args[1].(type) {
		case Str:
			n := len(dst.A)
			if len(src.B) < n {
				n = len(src.B)
			}
			for i := 0; i < n; i++ {
				if m.watch != nil {
					m.checkWatch(&dst.A[i])
				}
				if m.tl != nil {
					m.accessCell(&dst.A[i], true)
				}
				dst.A[i] = src.B[i]
			}
			return m.mkInt(int64(n), 64)
		case Slice:
			n := len(dst.A)
			if len(src.A) < n {
				n = len(src.A)
			}
			tmp := make([]Value, n)
			for i := 0; i < n; i++ {
				if m.tl != nil {
					m.accessCell(&src.A[i], false)
				}
				tmp[i] = copyVal(src.A[i])
			}
			for i := 0; i < n; i++ {
				if m.watch != nil {
					m.checkWatch(&dst.A[i])
				}
				if m.tl != nil {
					m.accessCell(&dst.A[i], true)
				}
				dst.A[i] = tmp[i]
			}
			return m.mkInt(int64(n), 64)
		}
		panic("copy: bad source")

	case "close":
		ch := args[0].(*ChanV)
		if ch == nil {
			m.runtimePanic("close of nil channel")
		}
		if ch.closed {
			m.runtimePanic("close of closed channel")
		}
		ch.closed = true
		return nil

	case "delete":
		mp := args[0].(*MapV)
		if mp != nil {
			m.mapDelete(mp, args[1])
		}
		return nil

	case "clear":
		switch x := args[0].(type) {
		case *MapV:
			if x != nil {
				x.Entries = nil
			}
		case Slice:
			var et types.Type
			if site != nil {
				et = site.Args[0].Type().Underlying().(*types.Slice).Elem()
			}
			for i := range x.A {
				x.A[i] = m.zero(et)
			}
		}
		return nil

	case "print", "println":
		return nil

	case "len":
		switch x := args[0].(type) {
		case Str:
			return m.mkInt(int64(len(x.B)), 64)
		case Array:
			return m.mkInt(int64(len(x)), 64)
		case *Value:
			if x == nil {
				// len of nil *array is the array length (static); use type
				at := site.Args[0].Type().Underlying().(*types.Pointer).Elem().Underlying().(*types.Array)
				return m.mkInt(at.Len(), 64)
			}
			return m.mkInt(int64(len((*x).(Array))), 64)
		case Slice:
			return m.mkInt(int64(len(x.A)), 64)
		case *MapV:
			if x == nil {
				return m.mkInt(0, 64)
			}
			return m.mkInt(int64(len(x.Entries)), 64)
		case *ChanV:
			if x == nil {
				return m.mkInt(0, 64)
			}
			return m.mkInt(int64(len(x.buf)), 64)
		}
		panic(fmt.Sprintf("len of %T", args[0]))

	case "cap":
		switch x := args[0].(type) {
		case Array:
			return m.mkInt(int64(len(x)), 64)
		case *Value:
			return m.mkInt(int64(len((*x).(Array))), 64)
		case Slice:
			return m.mkInt(int64(cap(x.A)), 64)
		case *ChanV:
			if x == nil {
				return m.mkInt(0, 64)
			}
			return m.mkInt(int64(x.cap), 64)
		}
		panic(fmt.Sprintf("cap of %T", args[0]))

	case "min", "max":
		t := site.Args[0].Type()
		r := args[0]
		for _, a := range args[1:] {
			var lt *sym.Term
			if fn.Name() == "min" {
				lt = m.binop(token.LSS, t, a, r, t).(*sym.Term)
			} else {
				lt = m.binop(token.GTR, t, a, r, t).(*sym.Term)
			}
			switch rv := r.(type) {
			case *sym.Term:
				r = m.ctx.Ite(lt, a.(*sym.Term), rv)
			default:
				if m.branch(lt) {
					r = a
				}
			}
		}
		return r

	case "panic":
		panic(targetPanic{args[0]})

	case "ssa:deferstack":
		return Native{caller}

	case "String": // unsafe.String(ptr *byte, len)
		n := int(m.concInt(args[1], "unsafe.String len"))
		if n == 0 {
			return Str{}
		}
		p := args[0].(*Value)
		if p == nil {
			m.runtimePanic("unsafe.String: ptr is nil and len is not zero")
		}
		cells := unsafe.Slice(p, n)
		bs := make([]*sym.Term, n)
		for i := range cells {
			bs[i] = cells[i].(*sym.Term)
		}
		return Str{bs}

	case "StringData": // unsafe.StringData(s) *byte
		s := args[0].(Str)
		if len(s.B) == 0 {
			return (*Value)(nil)
		}
		a := make([]Value, len(s.B))
		for i, b := range s.B {
			a[i] = b
		}
		return &a[0]

	case "Slice": // unsafe.Slice(ptr *T, len) []T
		n := int(m.concInt(args[1], "unsafe.Slice len"))
		p := args[0].(*Value)
		if p == nil {
			if n != 0 {
				m.runtimePanic("unsafe.Slice: ptr is nil and len is not zero")
			}
			return Slice{Nil: true}
		}
		return Slice{A: unsafe.Slice(p, n)}

	case "SliceData": // unsafe.SliceData(s []T) *T
		sl := args[0].(Slice)
		if cap(sl.A) == 0 {
			return (*Value)(nil)
		}
		return &sl.A[:1][0]

	case "recover":
		return m.doRecover(caller)

	case "ssa:wrapnilchk":
		recv := args[0]
		if p, ok := recv.(*Value); ok && p == nil {
			recvType := m.DebugString(args[1])
			methodName := m.DebugString(args[2])
			m.runtimePanic(fmt.Sprintf("value method %s.%s called using nil *%s pointer", recvType, methodName, recvType))
		}
		return recv
	}
	panic("unknown built-in: " + fn.Name())
}

// ---- channels (single-threaded, buffered semantics only) ----

func (m *Machine) chanSend(ch *ChanV, v Value) {
	if ch == nil {
		m.endPath("unsupported", "send on nil channel blocks forever")
	}
	if ch.closed {
		m.runtimePanic("send on closed channel")
	}
	ch.buf = append(ch.buf, v)
}

func (m *Machine) chanRecv(ch *ChanV, et types.Type, commaOk bool) Value {
	if ch == nil {
		m.endPath("unsupported", "receive on nil channel blocks forever")
	}
	var v Value
	ok := true
	if len(ch.buf) > 0 {
		v = ch.buf[0]
		ch.buf = ch.buf[1:]
	} else if ch.closed {
		v = m.zero(et)
		ok = false
	} else {
		m.endPath("unsupported", "receive on empty channel would block (no goroutine model)")
	}
	if commaOk {
		return Tuple{v, m.ctx.Bool(ok)}
	}
	return v
}

func (m *Machine) selectOp(fr *frame, instr *ssa.Select) Value {
	// ready cases only; default when none
	chosen := -1
	var recv Value
	recvOk := false
	for i, st := range instr.States {
		ch := fr.get(st.Chan).(*ChanV)
		if ch == nil {
			continue
		}
		if st.Dir == types.RecvOnly {
			if len(ch.buf) > 0 || ch.closed {
				et := st.Chan.Type().Underlying().(*types.Chan).Elem()
				t := m.chanRecv(ch, et, true).(Tuple)
				recv, recvOk = t[0], t[1].(*sym.Term).IsTrue()
				chosen = i
				break
			}
		} else {
			m.chanSend(ch, fr.get(st.Send))
			chosen = i
			break
		}
	}
	if chosen < 0 && instr.Blocking {
		m.endPath("unsupported", "blocking select with no ready case (no goroutine model)")
	}
	r := Tuple{m.mkInt(int64(chosen), 64), m.ctx.Bool(recvOk)}
	for i, st := range instr.States {
		if st.Dir == types.RecvOnly {
			et := st.Chan.Type().Underlying().(*types.Chan).Elem()
			if i == chosen && recvOk {
				r = append(r, recv)
			} else {
				r = append(r, m.zero(et))
			}
		}
	}
	return r
}

// spawn runs a goroutine body to completion immediately (run-to-completion
// model); the thread layer replaces this when enabled.
func (m *Machine) spawn(fr *frame, fn Value, args []Value, site *ssa.CallCommon) {
	if m.spawnHook != nil {
		m.spawnHook(fr, fn, args, site)
		return
	}
	m.unsupported("go statement (%s) without thread model", describeFn(fn))
}

func describeFn(fn Value) string {
	switch f := fn.(type) {
	case *ssa.Function:
		return f.String()
	case *Closure:
		return f.Fn.String()
	}
	return fmt.Sprintf("%T", fn)
}

var _ = strings.Join
