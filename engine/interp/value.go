package interp

import (
	"fmt"
	"go/types"
	"strings"

	"golang.org/x/tools/go/ssa"

	"verif/engine/sym"
)

// Value is one of:
//
//	*sym.Term     integers (bit-vectors, width by static type) and booleans
//	float64       floats (concrete only; float32 values are kept rounded)
//	complex128    complex (concrete only)
//	Str           strings: concrete length, symbolic bytes
//	Struct        []Value, copied on load/store
//	Array         []Value, copied on load/store
//	*Value        pointers (nil pointer is (*Value)(nil))
//	Slice         slices
//	*MapV         maps (nil map is (*MapV)(nil))
//	Iface         interfaces (T==nil is the nil interface)
//	*ssa.Function, *ssa.Builtin, *Closure   function values; nil func is (*Closure)(nil)
//	Tuple         multiple results
//	*ChanV        channels (single-threaded buffered model)
//	Native        opaque host value (compiled regexp, ...)
//	iterator types for range
type Value interface{}

type Str struct{ B []*sym.Term }

type Struct []Value
type Array []Value
type Tuple []Value

type Slice struct {
	A   []Value // A[:len] are the elements; cap(A) is the capacity
	Nil bool
}

type Iface struct {
	T types.Type
	V Value
}

type Closure struct {
	Fn  *ssa.Function
	Env []Value
}

type Native struct{ V interface{} }

type ChanV struct {
	buf    []Value
	cap    int
	closed bool
}

type mapEntry struct {
	K, V    Value
	deleted bool
}

type MapV struct {
	KT, VT  types.Type
	Entries []*mapEntry
}

// unsafe.Pointer values keep the typed pointer they came from.
type UnsafePtr struct {
	P Value // *Value, or nil
	// for pointers derived from string/slice data
	Data []Value
	Str  *Str
}

func (s Str) Len() int { return len(s.B) }

// Concrete returns the Go string when every byte is constant.
func (s Str) Concrete() (string, bool) {
	bs := make([]byte, len(s.B))
	for i, b := range s.B {
		if !b.IsConst() {
			return "", false
		}
		bs[i] = byte(b.Val)
	}
	return string(bs), true
}

func (s Str) IsConcrete() bool {
	for _, b := range s.B {
		if !b.IsConst() {
			return false
		}
	}
	return true
}

func (m *Machine) mkStr(s string) Str {
	b := make([]*sym.Term, len(s))
	for i := 0; i < len(s); i++ {
		b[i] = m.ctx.Const(uint64(s[i]), 8)
	}
	return Str{b}
}

func (m *Machine) mkInt(v int64, w int) *sym.Term { return m.ctx.Const(uint64(v), w) }

// DebugString renders a value for observations / evidence samples.
func (m *Machine) DebugString(v Value) string {
	var sb strings.Builder
	m.debugString(&sb, v, 0)
	return sb.String()
}

func (m *Machine) debugString(sb *strings.Builder, v Value, depth int) {
	if depth > 6 {
		sb.WriteString("…")
		return
	}
	switch v := v.(type) {
	case nil:
		sb.WriteString("<nil>")
	case *sym.Term:
		if v.IsConst() {
			if v.W == 0 {
				fmt.Fprintf(sb, "%v", v.Val == 1)
			} else {
				fmt.Fprintf(sb, "%d", v.Val)
			}
		} else {
			s := v.String()
			if len(s) > 80 {
				s = s[:80] + "…"
			}
			sb.WriteString("«" + s + "»")
		}
	case Str:
		sb.WriteByte('"')
		for _, b := range v.B {
			if b.IsConst() {
				c := byte(b.Val)
				if c >= 0x20 && c < 0x7f && c != '"' && c != '\\' {
					sb.WriteByte(c)
				} else {
					fmt.Fprintf(sb, "\\x%02x", c)
				}
			} else {
				sb.WriteString("«?»")
			}
		}
		sb.WriteByte('"')
	case Struct:
		sb.WriteByte('{')
		for i, f := range v {
			if i > 0 {
				sb.WriteByte(' ')
			}
			m.debugString(sb, f, depth+1)
		}
		sb.WriteByte('}')
	case Array:
		sb.WriteByte('[')
		for i, f := range v {
			if i > 0 {
				sb.WriteByte(' ')
			}
			m.debugString(sb, f, depth+1)
		}
		sb.WriteByte(']')
	case Slice:
		if v.Nil {
			sb.WriteString("[]nil")
			return
		}
		sb.WriteString("[")
		for i, f := range v.A {
			if i > 0 {
				sb.WriteByte(' ')
			}
			m.debugString(sb, f, depth+1)
		}
		sb.WriteString("]")
	case *Value:
		if v == nil {
			sb.WriteString("nil")
		} else {
			sb.WriteByte('&')
			m.debugString(sb, *v, depth+1)
		}
	case Iface:
		if v.T == nil {
			sb.WriteString("nil")
		} else {
			sb.WriteString(types.TypeString(v.T, shortQual) + ":")
			m.debugString(sb, v.V, depth+1)
		}
	case *MapV:
		if v == nil {
			sb.WriteString("map[]nil")
			return
		}
		sb.WriteString("map[")
		for i, e := range v.Entries {
			if i > 0 {
				sb.WriteByte(' ')
			}
			m.debugString(sb, e.K, depth+1)
			sb.WriteByte(':')
			m.debugString(sb, e.V, depth+1)
		}
		sb.WriteString("]")
	case Tuple:
		sb.WriteByte('(')
		for i, f := range v {
			if i > 0 {
				sb.WriteString(", ")
			}
			m.debugString(sb, f, depth+1)
		}
		sb.WriteByte(')')
	case float64:
		fmt.Fprintf(sb, "%g", v)
	case *ssa.Function:
		sb.WriteString("func " + v.String())
	case *Closure:
		if v == nil {
			sb.WriteString("func nil")
		} else {
			sb.WriteString("closure " + v.Fn.String())
		}
	default:
		fmt.Fprintf(sb, "%T", v)
	}
}

func shortQual(p *types.Package) string { return p.Name() }

// zero returns the zero value of type t.
func (m *Machine) zero(t types.Type) Value {
	switch t := t.(type) {
	case *types.Basic:
		if t.Kind() == types.UntypedNil {
			panic("untyped nil has no zero value")
		}
		if t.Info()&types.IsUntyped != 0 {
			t = types.Default(t).(*types.Basic)
		}
		switch {
		case t.Info()&types.IsBoolean != 0:
			return m.ctx.False
		case t.Info()&types.IsInteger != 0:
			return m.ctx.Const(0, m.width(t))
		case t.Info()&types.IsFloat != 0:
			return float64(0)
		case t.Info()&types.IsComplex != 0:
			return complex128(0)
		case t.Info()&types.IsString != 0:
			return Str{}
		case t.Kind() == types.UnsafePointer:
			return UnsafePtr{}
		}
		panic(fmt.Sprintf("zero for unexpected basic type %v", t))
	case *types.Pointer:
		return (*Value)(nil)
	case *types.Array:
		a := make(Array, t.Len())
		for i := range a {
			a[i] = m.zero(t.Elem())
		}
		return a
	case *types.Named:
		return m.zero(t.Underlying())
	case *types.Alias:
		return m.zero(types.Unalias(t))
	case *types.Interface:
		return Iface{}
	case *types.Slice:
		return Slice{Nil: true}
	case *types.Struct:
		s := make(Struct, t.NumFields())
		for i := range s {
			s[i] = m.zero(t.Field(i).Type())
		}
		return s
	case *types.Tuple:
		if t.Len() == 1 {
			return m.zero(t.At(0).Type())
		}
		s := make(Tuple, t.Len())
		for i := range s {
			s[i] = m.zero(t.At(i).Type())
		}
		return s
	case *types.Chan:
		return (*ChanV)(nil)
	case *types.Map:
		return (*MapV)(nil)
	case *types.Signature:
		return (*Closure)(nil)
	case *types.TypeParam:
		panic(fmt.Sprintf("zero of type parameter %v (generic body not instantiated)", t))
	}
	panic(fmt.Sprintf("zero: unexpected type %T %v", t, t))
}

// width returns the bit width of an integer/bool basic type (0 for bool).
func (m *Machine) width(t types.Type) int {
	b, ok := t.Underlying().(*types.Basic)
	if !ok {
		panic(fmt.Sprintf("width of non-basic type %v", t))
	}
	switch b.Kind() {
	case types.Bool, types.UntypedBool:
		return 0
	case types.Int8, types.Uint8:
		return 8
	case types.Int16, types.Uint16:
		return 16
	case types.Int32, types.Uint32, types.UntypedRune:
		return 32
	case types.Int, types.Uint, types.Int64, types.Uint64, types.Uintptr, types.UntypedInt:
		return 64
	}
	panic(fmt.Sprintf("width of %v", t))
}

func isSigned(t types.Type) bool {
	b, ok := t.Underlying().(*types.Basic)
	if !ok {
		return false
	}
	return b.Info()&types.IsUnsigned == 0 && b.Info()&types.IsInteger != 0
}

func isInteger(t types.Type) bool {
	b, ok := t.Underlying().(*types.Basic)
	return ok && b.Info()&types.IsInteger != 0
}

func isFloat(t types.Type) bool {
	b, ok := t.Underlying().(*types.Basic)
	return ok && b.Info()&types.IsFloat != 0
}

func isString(t types.Type) bool {
	b, ok := t.Underlying().(*types.Basic)
	return ok && b.Info()&types.IsString != 0
}

func isBool(t types.Type) bool {
	b, ok := t.Underlying().(*types.Basic)
	return ok && b.Info()&types.IsBoolean != 0
}

// copyVal deep-copies aggregates that have value semantics.
func copyVal(v Value) Value {
	switch v := v.(type) {
	case Struct:
		c := make(Struct, len(v))
		for i, f := range v {
			c[i] = copyVal(f)
		}
		return c
	case Array:
		c := make(Array, len(v))
		for i, f := range v {
			c[i] = copyVal(f)
		}
		return c
	case Tuple:
		c := make(Tuple, len(v))
		for i, f := range v {
			c[i] = copyVal(f)
		}
		return c
	}
	return v
}

// storeInto writes v into the cell, updating aggregates in place so that
// pointers to their fields/elements stay valid.
func storeInto(cell *Value, v Value) {
	switch v := v.(type) {
	case Struct:
		if d, ok := (*cell).(Struct); ok && len(d) == len(v) {
			for i := range v {
				storeInto(&d[i], v[i])
			}
			return
		}
		*cell = copyVal(v)
		return
	case Array:
		if d, ok := (*cell).(Array); ok && len(d) == len(v) {
			for i := range v {
				storeInto(&d[i], v[i])
			}
			return
		}
		*cell = copyVal(v)
		return
	}
	*cell = v
}
