package interp

import (
	"fmt"
	"go/types"
	"math"
	"sort"

	"golang.org/x/tools/go/ssa"

	"verif/engine/sym"
)

const unixToInternal int64 = (1969*365 + 1969/4 - 1969/100 + 1969/400) * 86400

// timeNow returns the symbolic wall-clock instant of the path: a symbolic base
// (whole seconds, optional symbolic nanoseconds, no monotonic reading) plus the
// advances requested by the harness through verifapi.AdvanceClock. Between two
// advances every reading is the same instant.
func (m *Machine) timeNow() Value {
	c := m.ctx
	if m.lastNow == nil {
		sec := m.nondet("now.sec", 64)
		// plausible clock range: 2001 .. ~2242 (keeps arithmetic far from wrap-around)
		m.assume(c.And(c.Sle(c.Const(1_000_000_000, 64), sec), c.Sle(sec, c.Const(1<<33, 64))))
		m.lastNow = sec
		m.nowNsec = c.Const(0, 64)
		if m.cfg.SymbolicNanos {
			n := m.nondet("now.nsec", 32)
			m.assume(c.Ult(n, c.Const(1_000_000_000, 32)))
			m.nowNsec = c.Zext(n, 64)
		}
	}
	ext := c.Add(m.lastNow, c.Const(uint64(unixToInternal), 64))
	// loc = time.Local (pointer to localLoc)
	var loc Value = (*Value)(nil)
	if g := m.lookupGlobal("time", "localLoc"); g != nil {
		loc = m.global(g)
	}
	return Struct{m.nowNsec, ext, loc}
}

// advanceClock moves the clock forward by a fresh symbolic amount of 0..max seconds.
func (m *Machine) advanceClock(name string, max int64) {
	c := m.ctx
	m.timeNow()
	d := m.nondet("clock.advance."+name, 64)
	m.assume(c.And(c.Sle(c.Const(0, 64), d), c.Sle(d, c.Const(uint64(max), 64))))
	// counterexamples with a frozen clock are preferred: they replay natively
	m.prefer = append(m.prefer, c.Eq(d, c.Const(0, 64)))
	m.lastNow = c.Add(m.lastNow, d)
}

func (m *Machine) lookupGlobal(pkgPath, name string) *ssa.Global {
	for _, p := range m.prog.AllPackages() {
		if p.Pkg.Path() == pkgPath {
			if g, ok := p.Members[name].(*ssa.Global); ok {
				return g
			}
		}
	}
	return nil
}

func addTimeIntrinsics(t map[string]intrinsic) {
	t["time.Now"] = func(m *Machine, fr *frame, a []Value) Value { return m.timeNow() }
	// Time.Sub without the saturation logic (which divides by 1e9): exact while the
	// difference stays far from the int64 range, otherwise the path is unsupported.
	t["(time.Time).Sub"] = func(m *Machine, fr *frame, a []Value) Value {
		c := m.ctx
		tt, uu := a[0].(Struct), a[1].(Struct)
		parts := func(x Struct) (sec, nsec *sym.Term) {
			wall, ext := x[0].(*sym.Term), x[1].(*sym.Term)
			if !wall.IsConst() {
				// wall = nsec (no monotonic bit by construction of symbolic instants)
				return ext, c.Bin(sym.OBAnd, wall, c.Const(1<<30-1, 64))
			}
			if wall.Val>>63 != 0 {
				m.unsupported("time.Sub on an instant with monotonic reading")
			}
			return ext, c.Const(wall.Val&(1<<30-1), 64)
		}
		ts, tn := parts(tt)
		us, un := parts(uu)
		ds := c.Sub(ts, us)
		lim := c.Const(1<<33, 64)
		if !m.branch(c.And(c.Slt(c.Neg(lim), ds), c.Slt(ds, lim))) {
			m.unsupported("time.Sub: difference outside ±2^33 s (saturation not modelled)")
		}
		return c.Add(c.Mul(ds, c.Const(1_000_000_000, 64)), c.Sub(tn, un))
	}
	// Time.Add for durations of whole seconds written as x * 1e9 (or constants): the seconds are added
	// to the instant without the division / remainder by 1e9 of the real code. Other shapes run the real code.
	t["(time.Time).Add"] = func(m *Machine, fr *frame, a []Value) Value {
		c := m.ctx
		tt := a[0].(Struct)
		d := a[1].(*sym.Term)
		wall, ext := tt[0].(*sym.Term), tt[1].(*sym.Term)
		if wall.IsConst() && wall.Val>>63 != 0 {
			return m.callRealBody(fr, a)
		}
		var secs *sym.Term
		switch {
		case d.IsConst() && d.Int(true)%1_000_000_000 == 0:
			secs = c.Const(uint64(d.Int(true)/1_000_000_000), 64)
		case d.Op == sym.OMul && d.Args[1].IsConst() && d.Args[1].Val == 1_000_000_000:
			secs = d.Args[0]
		case d.Op == sym.OMul && d.Args[0].IsConst() && d.Args[0].Val == 1_000_000_000:
			secs = d.Args[1]
		default:
			return m.callRealBody(fr, a)
		}
		// the product must not have wrapped: |secs| < 2^33
		lim := c.Const(1<<33, 64)
		if !m.branch(c.And(c.Slt(c.Neg(lim), secs), c.Slt(secs, lim))) {
			m.unsupported("time.Add: duration outside ±2^33 s")
		}
		return Struct{wall, c.Add(ext, secs), tt[2]}
	}
	t["time.Sleep"] = func(m *Machine, fr *frame, a []Value) Value { return nil }
	t["time.runtimeNano"] = func(m *Machine, fr *frame, a []Value) Value { return m.mkInt(1, 64) }
	t["(*time.Location).get"] = func(m *Machine, fr *frame, a []Value) Value { return a[0] }
}

func addMiscIntrinsics(t map[string]intrinsic) {
	nop := func(m *Machine, fr *frame, a []Value) Value { return nil }
	t["maps.clone"] = func(m *Machine, fr *frame, a []Value) Value {
		itf, ok := a[0].(Iface)
		var mp *MapV
		if ok {
			mp, _ = itf.V.(*MapV)
		} else {
			mp, _ = a[0].(*MapV)
		}
		if mp == nil {
			return a[0]
		}
		c := &MapV{KT: mp.KT, VT: mp.VT}
		for _, e := range mp.Entries {
			c.Entries = append(c.Entries, &mapEntry{K: e.K, V: copyVal(e.V)})
		}
		if ok {
			return Iface{T: itf.T, V: c}
		}
		return c
	}
	t["runtime.GC"] = nop
	t["runtime.KeepAlive"] = nop
	t["runtime.SetFinalizer"] = nop
	t["runtime.Gosched"] = nop
	t["runtime.Stack"] = func(m *Machine, fr *frame, a []Value) Value { return m.mkInt(0, 64) }
	t["runtime.Callers"] = func(m *Machine, fr *frame, a []Value) Value { return m.mkInt(0, 64) }
	t["runtime.Caller"] = func(m *Machine, fr *frame, a []Value) Value {
		return Tuple{m.mkInt(0, 64), Str{}, m.mkInt(0, 64), m.ctx.False}
	}
	t["runtime/debug.Stack"] = func(m *Machine, fr *frame, a []Value) Value { return Slice{Nil: true} }
	t["os.Getenv"] = func(m *Machine, fr *frame, a []Value) Value { return Str{} }
	t["os.LookupEnv"] = func(m *Machine, fr *frame, a []Value) Value { return Tuple{Str{}, m.ctx.False} }

	// context: values kept in real valueCtx structs; cancellation is inert
	t["context.WithValue"] = func(m *Machine, fr *frame, a []Value) Value {
		vt := m.lookupType("context", "valueCtx")
		cell := new(Value)
		*cell = Struct{a[0], a[1], a[2]}
		return Iface{T: types.NewPointer(vt), V: cell}
	}
	cancelNop := func(m *Machine) Value {
		return Native{func(m *Machine, args []Value) Value { return nil }}
	}
	t["context.WithCancel"] = func(m *Machine, fr *frame, a []Value) Value { return Tuple{a[0], cancelNop(m)} }
	t["context.WithTimeout"] = func(m *Machine, fr *frame, a []Value) Value { return Tuple{a[0], cancelNop(m)} }
	t["context.WithDeadline"] = func(m *Machine, fr *frame, a []Value) Value { return Tuple{a[0], cancelNop(m)} }
	t["context.WithoutCancel"] = func(m *Machine, fr *frame, a []Value) Value { return a[0] }

	// math (concrete floats)
	f1 := func(f func(float64) float64) intrinsic {
		return func(m *Machine, fr *frame, a []Value) Value { return f(a[0].(float64)) }
	}
	t["math.Floor"] = f1(math.Floor)
	t["math.Ceil"] = f1(math.Ceil)
	t["math.Trunc"] = f1(math.Trunc)
	t["math.Sqrt"] = f1(math.Sqrt)
	t["math.Abs"] = f1(math.Abs)
	t["math.Log"] = f1(math.Log)
	t["math.Exp"] = f1(math.Exp)
	t["math.Round"] = f1(math.Round)
	t["math.Float64bits"] = func(m *Machine, fr *frame, a []Value) Value {
		return m.ctx.Const(math.Float64bits(a[0].(float64)), 64)
	}
	t["math.Float64frombits"] = func(m *Machine, fr *frame, a []Value) Value {
		x := a[0].(*sym.Term)
		if !x.IsConst() {
			m.unsupported("Float64frombits of symbolic bits")
		}
		return math.Float64frombits(x.Val)
	}
	t["math.Float32bits"] = func(m *Machine, fr *frame, a []Value) Value {
		return m.ctx.Const(uint64(math.Float32bits(float32(a[0].(float64)))), 32)
	}
	t["math.IsNaN"] = func(m *Machine, fr *frame, a []Value) Value { return m.ctx.Bool(math.IsNaN(a[0].(float64))) }
	t["math.IsInf"] = func(m *Machine, fr *frame, a []Value) Value {
		return m.ctx.Bool(math.IsInf(a[0].(float64), int(m.concInt(a[1], "IsInf sign"))))
	}
	t["math.Inf"] = func(m *Machine, fr *frame, a []Value) Value { return math.Inf(int(m.concInt(a[0], "Inf sign"))) }
	t["math.NaN"] = func(m *Machine, fr *frame, a []Value) Value { return math.NaN() }
	t["math.Pow"] = func(m *Machine, fr *frame, a []Value) Value { return math.Pow(a[0].(float64), a[1].(float64)) }
	t["math.Mod"] = func(m *Machine, fr *frame, a []Value) Value { return math.Mod(a[0].(float64), a[1].(float64)) }

	// sort.Slice / sort.SliceStable / sort.Strings on interpreter slices (stable insertion sort)
	sortSlice := func(m *Machine, fr *frame, a []Value) Value {
		itf := a[0].(Iface)
		sl := itf.V.(Slice)
		less := a[1]
		n := len(sl.A)
		idx := make([]int, n)
		for i := range idx {
			idx[i] = i
		}
		// the less callback takes indices into the current slice, so sort in place by swapping
		for i := 1; i < n; i++ {
			for j := i; j > 0; j-- {
				r := m.call(fr, less, []Value{m.mkInt(int64(j), 64), m.mkInt(int64(j-1), 64)}, nil).(*sym.Term)
				if !m.branch(r) {
					break
				}
				sl.A[j], sl.A[j-1] = sl.A[j-1], sl.A[j]
			}
		}
		return nil
	}
	t["sort.Slice"] = sortSlice
	t["sort.SliceStable"] = sortSlice
	t["sort.Strings"] = func(m *Machine, fr *frame, a []Value) Value {
		sl := a[0].(Slice)
		allConc := true
		for _, e := range sl.A {
			if !e.(Str).IsConcrete() {
				allConc = false
			}
		}
		if allConc {
			ss := make([]string, len(sl.A))
			for i, e := range sl.A {
				ss[i], _ = e.(Str).Concrete()
			}
			sort.Strings(ss)
			for i := range ss {
				sl.A[i] = m.mkStr(ss[i])
			}
			return nil
		}
		for i := 1; i < len(sl.A); i++ {
			for j := i; j > 0; j-- {
				if !m.branch(m.strLess(sl.A[j].(Str), sl.A[j-1].(Str), false)) {
					break
				}
				sl.A[j], sl.A[j-1] = sl.A[j-1], sl.A[j]
			}
		}
		return nil
	}

	// reflect: the small part needed by plain library code
	t["internal/reflectlite.TypeOf"] = func(m *Machine, fr *frame, a []Value) Value {
		itf := a[0].(Iface)
		return Iface{T: rtypeMarker, V: Native{itf.T}}
	}
	t["reflect.TypeOf"] = t["internal/reflectlite.TypeOf"]
	t["reflect.DeepEqual"] = func(m *Machine, fr *frame, a []Value) Value {
		return m.deepEqual(a[0], a[1], 0)
	}
	t["errors.is"] = nil
	delete(t, "errors.is")
}

// rtypeMarker is the dynamic type of values produced by reflect.TypeOf.
var rtypeMarker types.Type = types.NewNamed(types.NewTypeName(0, nil, "verif.rtype", nil), types.NewStruct(nil, nil), nil)

// deepEqual approximates reflect.DeepEqual on interpreter values.
func (m *Machine) deepEqual(x, y Value, depth int) *sym.Term {
	c := m.ctx
	if depth > 50 {
		m.unsupported("reflect.DeepEqual: structure too deep")
	}
	switch xv := x.(type) {
	case Iface:
		yv, ok := y.(Iface)
		if !ok {
			return c.False
		}
		if xv.T == nil || yv.T == nil {
			return c.Bool(xv.T == nil && yv.T == nil)
		}
		if !types.Identical(xv.T, yv.T) {
			return c.False
		}
		return m.deepEqual(xv.V, yv.V, depth+1)
	case *Value:
		yv, ok := y.(*Value)
		if !ok {
			return c.False
		}
		if xv == nil || yv == nil {
			return c.Bool(xv == yv)
		}
		if xv == yv {
			return c.True
		}
		return m.deepEqual(*xv, *yv, depth+1)
	case Slice:
		yv, ok := y.(Slice)
		if !ok {
			return c.False
		}
		if xv.Nil != yv.Nil || len(xv.A) != len(yv.A) {
			return c.False
		}
		r := c.True
		for i := range xv.A {
			r = c.And(r, m.deepEqual(xv.A[i], yv.A[i], depth+1))
		}
		return r
	case Struct:
		yv := y.(Struct)
		r := c.True
		for i := range xv {
			r = c.And(r, m.deepEqual(xv[i], yv[i], depth+1))
		}
		return r
	case Array:
		yv := y.(Array)
		r := c.True
		for i := range xv {
			r = c.And(r, m.deepEqual(xv[i], yv[i], depth+1))
		}
		return r
	case *MapV:
		yv, ok := y.(*MapV)
		if !ok {
			return c.False
		}
		if xv == nil || yv == nil {
			return c.Bool(xv == yv)
		}
		if len(xv.Entries) != len(yv.Entries) {
			return c.False
		}
		r := c.True
		for _, e := range xv.Entries {
			i := m.mapFind(yv, e.K)
			if i < 0 {
				return c.False
			}
			r = c.And(r, m.deepEqual(e.V, yv.Entries[i].V, depth+1))
		}
		return r
	case *ssa.Function, *Closure:
		return c.False
	}
	defer func() {
		if r := recover(); r != nil {
			if _, ok := r.(pathEnd); ok {
				panic(r)
			}
			if _, ok := r.(targetPanic); ok {
				panic(r)
			}
			panic(fmt.Sprintf("deepEqual: %v", r))
		}
	}()
	return m.equal(x, y)
}
