package interp

import (
	"fmt"
	"go/types"

	"verif/engine/sym"
)

// fieldIndex finds a struct field by name in the (pointer to) named struct type t.
func fieldIndex(t types.Type, name string) int {
	if p, ok := t.Underlying().(*types.Pointer); ok {
		t = p.Elem()
	}
	st := t.Underlying().(*types.Struct)
	for i := 0; i < st.NumFields(); i++ {
		if st.Field(i).Name() == name {
			return i
		}
	}
	panic("no field " + name + " in " + t.String())
}

func recvType(fr *frame) types.Type { return fr.fn.Signature.Recv().Type() }

func (m *Machine) ptrArg(v Value, what string) *Value {
	p, ok := v.(*Value)
	if !ok {
		panic(fmt.Sprintf("%s: expected pointer, got %T", what, v))
	}
	if p == nil {
		m.runtimePanic("invalid memory address or nil pointer dereference (" + what + ")")
	}
	return p
}

func addSyncIntrinsics(t map[string]intrinsic) {
	nop := func(m *Machine, fr *frame, a []Value) Value { return nil }
	lockHook := func(op string) intrinsic {
		return func(m *Machine, fr *frame, a []Value) Value {
			if m.syncHook != nil {
				m.syncHook(op, a[0].(*Value))
			}
			if m.tl != nil {
				m.threadSync(fr, op, m.ptrArg(a[0], "sync mutex"))
			}
			return nil
		}
	}
	t["(*sync.Mutex).Lock"] = lockHook("Lock")
	t["(*sync.Mutex).Unlock"] = lockHook("Unlock")
	t["(*sync.RWMutex).Lock"] = lockHook("Lock")
	t["(*sync.RWMutex).Unlock"] = lockHook("Unlock")
	t["(*sync.RWMutex).RLock"] = lockHook("RLock")
	t["(*sync.RWMutex).RUnlock"] = lockHook("RUnlock")
	t["(*sync.Mutex).TryLock"] = func(m *Machine, fr *frame, a []Value) Value { return m.ctx.True }
	t["(*sync.WaitGroup).Add"] = nop
	t["(*sync.WaitGroup).Done"] = nop
	t["(*sync.WaitGroup).Wait"] = nop
	t["(*sync.Once).Do"] = func(m *Machine, fr *frame, a []Value) Value {
		p := m.ptrArg(a[0], "sync.Once")
		st := (*p).(Struct)
		di := fieldIndex(recvType(fr), "done")
		done := st[di].(Struct) // atomic.Uint32{_ noCopy; v uint32}
		vi := len(done) - 1
		if done[vi].(*sym.Term).Val == 0 {
			done[vi] = m.ctx.Const(1, 32)
			m.call(fr, a[1], nil, nil)
		}
		return nil
	}
	t["(*sync.Pool).Get"] = func(m *Machine, fr *frame, a []Value) Value {
		p := m.ptrArg(a[0], "sync.Pool")
		st := (*p).(Struct)
		nf := st[fieldIndex(recvType(fr), "New")]
		switch f := nf.(type) {
		case *Closure:
			if f == nil {
				return Iface{}
			}
		case nil:
			return Iface{}
		}
		return m.call(fr, nf, nil, nil)
	}
	t["(*sync.Pool).Put"] = nop

	// sync.Map modelled as an association list kept in a side table
	smap := func(m *Machine, v Value) *MapV {
		p := m.ptrArg(v, "sync.Map")
		if m.syncMaps == nil {
			m.syncMaps = map[*Value]*MapV{}
		}
		mp, ok := m.syncMaps[p]
		if !ok {
			any := types.NewInterfaceType(nil, nil)
			mp = &MapV{KT: any, VT: any}
			m.syncMaps[p] = mp
		}
		return mp
	}
	t["(*sync.Map).Load"] = func(m *Machine, fr *frame, a []Value) Value {
		mp := smap(m, a[0])
		if i := m.mapFind(mp, a[1]); i >= 0 {
			return Tuple{mp.Entries[i].V, m.ctx.True}
		}
		return Tuple{Iface{}, m.ctx.False}
	}
	t["(*sync.Map).Store"] = func(m *Machine, fr *frame, a []Value) Value {
		m.mapSet(smap(m, a[0]), a[1], a[2])
		return nil
	}
	t["(*sync.Map).Delete"] = func(m *Machine, fr *frame, a []Value) Value {
		m.mapDelete(smap(m, a[0]), a[1])
		return nil
	}
	t["(*sync.Map).LoadAndDelete"] = func(m *Machine, fr *frame, a []Value) Value {
		mp := smap(m, a[0])
		if i := m.mapFind(mp, a[1]); i >= 0 {
			v := mp.Entries[i].V
			m.mapDelete(mp, a[1])
			return Tuple{v, m.ctx.True}
		}
		return Tuple{Iface{}, m.ctx.False}
	}
	t["(*sync.Map).LoadOrStore"] = func(m *Machine, fr *frame, a []Value) Value {
		mp := smap(m, a[0])
		if i := m.mapFind(mp, a[1]); i >= 0 {
			return Tuple{mp.Entries[i].V, m.ctx.True}
		}
		m.mapSet(mp, a[1], a[2])
		return Tuple{a[2], m.ctx.False}
	}
	t["(*sync.Map).Swap"] = func(m *Machine, fr *frame, a []Value) Value {
		mp := smap(m, a[0])
		var prev Value = Iface{}
		loaded := false
		if i := m.mapFind(mp, a[1]); i >= 0 {
			prev, loaded = mp.Entries[i].V, true
		}
		m.mapSet(mp, a[1], a[2])
		return Tuple{prev, m.ctx.Bool(loaded)}
	}
	t["(*sync.Map).Range"] = func(m *Machine, fr *frame, a []Value) Value {
		mp := smap(m, a[0])
		it := m.rangeIter(mp, nil).(*mapIter)
		for {
			r := it.next(m).(Tuple)
			if !r[0].(*sym.Term).IsTrue() {
				break
			}
			cont := m.call(fr, a[1], []Value{r[1], r[2]}, nil).(*sym.Term)
			if !m.branch(cont) {
				break
			}
		}
		return nil
	}
	t["(*sync.Map).Clear"] = func(m *Machine, fr *frame, a []Value) Value {
		smap(m, a[0]).Entries = nil
		return nil
	}

	// sync/atomic functions on plain cells
	for _, ty := range []string{"Int32", "Int64", "Uint32", "Uint64", "Uintptr", "Pointer"} {
		ty := ty
		t["sync/atomic.Load"+ty] = func(m *Machine, fr *frame, a []Value) Value { return m.load(m.ptrArg(a[0], "atomic.Load")) }
		t["sync/atomic.Store"+ty] = func(m *Machine, fr *frame, a []Value) Value {
			m.store(m.ptrArg(a[0], "atomic.Store"), a[1])
			return nil
		}
		t["sync/atomic.Swap"+ty] = func(m *Machine, fr *frame, a []Value) Value {
			p := m.ptrArg(a[0], "atomic.Swap")
			old := m.load(p)
			m.store(p, a[1])
			return old
		}
		t["sync/atomic.CompareAndSwap"+ty] = func(m *Machine, fr *frame, a []Value) Value {
			p := m.ptrArg(a[0], "atomic.CompareAndSwap")
			if m.branch(m.equal(m.load(p), a[1])) {
				m.store(p, a[2])
				return m.ctx.True
			}
			return m.ctx.False
		}
		if ty != "Pointer" {
			t["sync/atomic.Add"+ty] = func(m *Machine, fr *frame, a []Value) Value {
				p := m.ptrArg(a[0], "atomic.Add")
				n := m.ctx.Add(m.load(p).(*sym.Term), a[1].(*sym.Term))
				m.store(p, n)
				return n
			}
			t["sync/atomic.And"+ty] = func(m *Machine, fr *frame, a []Value) Value {
				p := m.ptrArg(a[0], "atomic.And")
				old := m.load(p).(*sym.Term)
				m.store(p, m.ctx.Bin(sym.OBAnd, old, a[1].(*sym.Term)))
				return old
			}
			t["sync/atomic.Or"+ty] = func(m *Machine, fr *frame, a []Value) Value {
				p := m.ptrArg(a[0], "atomic.Or")
				old := m.load(p).(*sym.Term)
				m.store(p, m.ctx.Bin(sym.OBOr, old, a[1].(*sym.Term)))
				return old
			}
		}
	}
	t["(*sync/atomic.Value).Load"] = func(m *Machine, fr *frame, a []Value) Value {
		p := m.ptrArg(a[0], "atomic.Value")
		return (*p).(Struct)[0]
	}
	t["(*sync/atomic.Value).Store"] = func(m *Machine, fr *frame, a []Value) Value {
		p := m.ptrArg(a[0], "atomic.Value")
		if m.watch != nil {
			m.checkWatch(&(*p).(Struct)[0])
		}
		(*p).(Struct)[0] = a[1]
		return nil
	}
}
