package interp

import (
	"fmt"
	"go/types"

	"verif/engine/sym"
)

// rval models reflect.Value.
type rval struct {
	T     types.Type
	V     Value
	addr  *Value
	valid bool
}

func reflectKind(t types.Type) uint64 {
	switch u := t.Underlying().(type) {
	case *types.Basic:
		switch u.Kind() {
		case types.Bool:
			return 1
		case types.Int:
			return 2
		case types.Int8:
			return 3
		case types.Int16:
			return 4
		case types.Int32:
			return 5
		case types.Int64:
			return 6
		case types.Uint:
			return 7
		case types.Uint8:
			return 8
		case types.Uint16:
			return 9
		case types.Uint32:
			return 10
		case types.Uint64:
			return 11
		case types.Uintptr:
			return 12
		case types.Float32:
			return 13
		case types.Float64:
			return 14
		case types.Complex64:
			return 15
		case types.Complex128:
			return 16
		case types.String:
			return 24
		case types.UnsafePointer:
			return 26
		}
	case *types.Array:
		return 17
	case *types.Chan:
		return 18
	case *types.Signature:
		return 19
	case *types.Interface:
		return 20
	case *types.Map:
		return 21
	case *types.Pointer:
		return 22
	case *types.Slice:
		return 23
	case *types.Struct:
		return 25
	}
	return 0
}

func (m *Machine) rtypeOf(t types.Type) Value {
	if t == nil {
		return Iface{}
	}
	return Iface{T: rtypeMarker, V: Native{t}}
}

func rtypeArg(v Value) types.Type {
	itf, ok := v.(Iface)
	if !ok || itf.T == nil {
		return nil
	}
	return itf.V.(Native).V.(types.Type)
}

// rtypeMethod implements methods of reflect.Type / reflectlite.Type values.
func (m *Machine) rtypeMethod(name string) Value {
	return Native{func(m *Machine, args []Value) Value {
		t := args[0].(Native).V.(types.Type)
		switch name {
		case "Elem":
			switch u := t.Underlying().(type) {
			case *types.Pointer:
				return m.rtypeOf(u.Elem())
			case *types.Slice:
				return m.rtypeOf(u.Elem())
			case *types.Array:
				return m.rtypeOf(u.Elem())
			case *types.Map:
				return m.rtypeOf(u.Elem())
			case *types.Chan:
				return m.rtypeOf(u.Elem())
			}
			m.runtimePanic("reflect: Elem of invalid type " + t.String())
		case "Key":
			return m.rtypeOf(t.Underlying().(*types.Map).Key())
		case "Kind":
			return m.ctx.Const(reflectKind(t), 64)
		case "Comparable":
			return m.ctx.Bool(types.Comparable(t))
		case "String":
			return m.mkStr(types.TypeString(t, func(p *types.Package) string { return p.Name() }))
		case "Name":
			if n, ok := types.Unalias(t).(*types.Named); ok {
				return m.mkStr(n.Obj().Name())
			}
			if b, ok := t.(*types.Basic); ok {
				return m.mkStr(b.Name())
			}
			return Str{}
		case "PkgPath":
			if n, ok := types.Unalias(t).(*types.Named); ok && n.Obj().Pkg() != nil {
				return m.mkStr(n.Obj().Pkg().Path())
			}
			return Str{}
		case "AssignableTo":
			return m.ctx.Bool(types.AssignableTo(t, rtypeArg(args[1])))
		case "ConvertibleTo":
			return m.ctx.Bool(types.ConvertibleTo(t, rtypeArg(args[1])))
		case "Implements":
			u := rtypeArg(args[1])
			it, ok := u.Underlying().(*types.Interface)
			if !ok {
				m.runtimePanic("reflect: non-interface type passed to Type.Implements")
			}
			return m.ctx.Bool(m.implements(t, it))
		case "NumField":
			return m.mkInt(int64(t.Underlying().(*types.Struct).NumFields()), 64)
		case "Len":
			return m.mkInt(t.Underlying().(*types.Array).Len(), 64)
		}
		m.unsupported("reflect.Type.%s", name)
		return nil
	}}
}

func addReflectIntrinsics(t map[string]intrinsic) {
	t["reflect.ValueOf"] = func(m *Machine, fr *frame, a []Value) Value {
		itf := a[0].(Iface)
		return rval{T: itf.T, V: itf.V, valid: itf.T != nil}
	}
	rv := func(m *Machine, v Value, what string) rval {
		r, ok := v.(rval)
		if !ok {
			if s, isStruct := v.(Struct); isStruct && len(s) == 3 {
				return rval{} // zero reflect.Value
			}
			panic(fmt.Sprintf("%s: receiver is %T, not a modelled reflect.Value", what, v))
		}
		return r
	}
	t["(reflect.Value).Type"] = func(m *Machine, fr *frame, a []Value) Value {
		r := rv(m, a[0], "Value.Type")
		if !r.valid {
			m.runtimePanic("reflect: call of reflect.Value.Type on zero Value")
		}
		return m.rtypeOf(r.T)
	}
	t["(reflect.Value).Kind"] = func(m *Machine, fr *frame, a []Value) Value {
		r := rv(m, a[0], "Value.Kind")
		if !r.valid {
			return m.ctx.Const(0, 64)
		}
		return m.ctx.Const(reflectKind(r.T), 64)
	}
	t["(reflect.Value).IsValid"] = func(m *Machine, fr *frame, a []Value) Value {
		return m.ctx.Bool(rv(m, a[0], "Value.IsValid").valid)
	}
	t["(reflect.Value).CanSet"] = func(m *Machine, fr *frame, a []Value) Value {
		return m.ctx.Bool(rv(m, a[0], "Value.CanSet").addr != nil)
	}
	t["(reflect.Value).IsNil"] = func(m *Machine, fr *frame, a []Value) Value {
		r := rv(m, a[0], "Value.IsNil")
		switch v := r.V.(type) {
		case *Value:
			return m.ctx.Bool(v == nil)
		case Iface:
			return m.ctx.Bool(v.T == nil)
		case Slice:
			return m.ctx.Bool(v.Nil)
		case *MapV:
			return m.ctx.Bool(v == nil)
		case *Closure:
			return m.ctx.Bool(v == nil)
		case *ChanV:
			return m.ctx.Bool(v == nil)
		}
		return m.ctx.False
	}
	t["(reflect.Value).IsZero"] = func(m *Machine, fr *frame, a []Value) Value {
		r := rv(m, a[0], "Value.IsZero")
		if !r.valid {
			m.runtimePanic("reflect: call of reflect.Value.IsZero on zero Value")
		}
		return m.equal(r.V, m.zero(r.T))
	}
	t["(reflect.Value).Elem"] = func(m *Machine, fr *frame, a []Value) Value {
		r := rv(m, a[0], "Value.Elem")
		switch u := r.T.Underlying().(type) {
		case *types.Pointer:
			p := r.V.(*Value)
			if p == nil {
				return rval{}
			}
			return rval{T: u.Elem(), V: *p, addr: p, valid: true}
		case *types.Interface:
			itf := r.V.(Iface)
			if itf.T == nil {
				return rval{}
			}
			return rval{T: itf.T, V: itf.V, valid: true}
		}
		m.runtimePanic("reflect: call of reflect.Value.Elem on " + r.T.String() + " Value")
		return nil
	}
	t["(reflect.Value).Set"] = func(m *Machine, fr *frame, a []Value) Value {
		r := rv(m, a[0], "Value.Set")
		x := rv(m, a[1], "Value.Set arg")
		if r.addr == nil {
			m.runtimePanic("reflect: reflect.Value.Set using unaddressable value")
		}
		if _, isIface := r.T.Underlying().(*types.Interface); isIface {
			if _, srcIface := x.T.Underlying().(*types.Interface); srcIface {
				m.store(r.addr, x.V)
			} else {
				m.store(r.addr, Iface{T: x.T, V: x.V})
			}
		} else {
			m.store(r.addr, x.V)
		}
		return nil
	}
	t["(reflect.Value).Interface"] = func(m *Machine, fr *frame, a []Value) Value {
		r := rv(m, a[0], "Value.Interface")
		if !r.valid {
			m.runtimePanic("reflect: call of reflect.Value.Interface on zero Value")
		}
		if _, isIface := r.T.Underlying().(*types.Interface); isIface {
			return r.V
		}
		return Iface{T: r.T, V: r.V}
	}
	t["(reflect.Value).Len"] = func(m *Machine, fr *frame, a []Value) Value {
		r := rv(m, a[0], "Value.Len")
		switch v := r.V.(type) {
		case Slice:
			return m.mkInt(int64(len(v.A)), 64)
		case Str:
			return m.mkInt(int64(len(v.B)), 64)
		case Array:
			return m.mkInt(int64(len(v)), 64)
		case *MapV:
			if v == nil {
				return m.mkInt(0, 64)
			}
			return m.mkInt(int64(len(v.Entries)), 64)
		}
		m.runtimePanic("reflect: call of reflect.Value.Len on " + r.T.String())
		return nil
	}
	t["(reflect.Value).String"] = func(m *Machine, fr *frame, a []Value) Value {
		r := rv(m, a[0], "Value.String")
		if s, ok := r.V.(Str); ok {
			return s
		}
		return m.mkStr("<" + typeStr(r.T) + " Value>")
	}
	t["(reflect.Value).Int"] = func(m *Machine, fr *frame, a []Value) Value {
		r := rv(m, a[0], "Value.Int")
		x := r.V.(*sym.Term)
		return m.ctx.Sext(x, 64)
	}
	t["(reflect.Value).Bool"] = func(m *Machine, fr *frame, a []Value) Value {
		return rv(m, a[0], "Value.Bool").V
	}
}
