package interp

import (
	"fmt"
	"go/types"

	"verif/engine/sym"
)

var opaqueType = newNativeType("verif.opaque")

const havocFamilies = 8

// havocValue builds an arbitrary value of type t: scalars symbolic, pointers nil or fresh, slices of
// 0..2 elements, maps of 0..1 entries, interfaces nil or an opaque non-nil value.
// havocShape decides a structural alternative (nil-ness, length) of a havoc'd value. One fork per Havoc
// call selects a shape family; within a family the alternatives are a fixed pseudo-random function of the
// path (family 0: everything nil/empty, family 1: everything populated), so that the number of explored
// shapes does not grow exponentially with the number of fields. Scalars stay fully symbolic.
func (m *Machine) havocShape(name string, n int) int {
	var k int
	switch m.havocFamily {
	case 0:
		k = 0
	case 1:
		k = n - 1
	default:
		h := uint64(m.havocFamily) * 0x9E3779B97F4A7C15
		for i := 0; i < len(name); i++ {
			h = (h ^ uint64(name[i])) * 0x100000001B3
		}
		h ^= h >> 31
		k = int(h % uint64(n))
	}
	m.choiceLog[m.freshName("choice:"+name)] = uint64(k)
	return k
}

func (m *Machine) havocValue(t types.Type, name string, depth int) Value {
	c := m.ctx
	if depth > 4 {
		return m.zero(t)
	}
	switch u := t.Underlying().(type) {
	case *types.Basic:
		switch {
		case u.Info()&types.IsBoolean != 0:
			v := m.nondet(name, 1)
			return c.Eq(v, c.Const(1, 1))
		case u.Info()&types.IsInteger != 0:
			return m.nondet(name, m.width(u))
		case u.Info()&types.IsString != 0:
			n := m.havocShape("len:"+name, 2)
			return Str{m.nondetBytes(name, n)}
		case u.Info()&types.IsFloat != 0:
			return float64(0)
		}
		return m.zero(t)
	case *types.Pointer:
		if m.havocShape("nil:"+name, 2) == 0 {
			return (*Value)(nil)
		}
		cell := new(Value)
		*cell = m.havocValue(u.Elem(), name+".*", depth+1)
		return cell
	case *types.Struct:
		s := make(Struct, u.NumFields())
		for i := range s {
			s[i] = m.havocValue(u.Field(i).Type(), name+"."+u.Field(i).Name(), depth+1)
		}
		return s
	case *types.Slice:
		n := m.havocShape("len:"+name, 3)
		if n == 0 {
			return Slice{Nil: true}
		}
		a := make([]Value, n)
		for i := range a {
			a[i] = m.havocValue(u.Elem(), fmt.Sprintf("%s[%d]", name, i), depth+1)
		}
		return Slice{A: a}
	case *types.Array:
		a := make(Array, u.Len())
		for i := range a {
			a[i] = m.havocValue(u.Elem(), fmt.Sprintf("%s[%d]", name, i), depth+1)
		}
		return a
	case *types.Map:
		switch m.havocShape("len:"+name, 3) {
		case 0:
			return (*MapV)(nil)
		case 1:
			return &MapV{KT: u.Key(), VT: u.Elem()}
		}
		mp := &MapV{KT: u.Key(), VT: u.Elem()}
		var k Value
		if isString(u.Key()) {
			k = m.mkStr("k")
		} else {
			k = m.zero(u.Key())
		}
		mp.Entries = append(mp.Entries, &mapEntry{K: k, V: m.havocValue(u.Elem(), name+"[k]", depth+1)})
		return mp
	case *types.Interface:
		if m.havocShape("nil:"+name, 2) == 0 {
			return Iface{}
		}
		return Iface{T: opaqueType, V: Native{name}}
	case *types.Signature:
		return (*Closure)(nil)
	}
	return m.zero(t)
}

// snapshot registers every cell reachable from v in the write monitor under the given label.
func (m *Machine) snapshot(v Value, label string, seen map[*Value]bool, depth int) {
	if depth > 12 {
		return
	}
	switch x := v.(type) {
	case *Value:
		if x == nil || seen[x] {
			return
		}
		seen[x] = true
		m.watch[x] = label
		m.snapshotInner(x, label, seen, depth)
	case Iface:
		m.snapshot(x.V, label, seen, depth+1)
	case Slice:
		full := x.A[:cap(x.A)]
		for i := range full {
			if !seen[&full[i]] {
				seen[&full[i]] = true
				m.watch[&full[i]] = label
				m.snapshotInner(&full[i], label, seen, depth+1)
			}
		}
	case *MapV:
		if x == nil {
			return
		}
		m.watchMaps[x] = label
		for _, e := range x.Entries {
			m.snapshot(e.V, label, seen, depth+1)
		}
	case Struct:
		for i := range x {
			m.snapshot(x[i], label, seen, depth+1)
		}
	case Array:
		for i := range x {
			m.snapshot(x[i], label, seen, depth+1)
		}
	}
}

// snapshotInner registers the addresses of the fields/elements of the aggregate stored in a cell.
func (m *Machine) snapshotInner(cell *Value, label string, seen map[*Value]bool, depth int) {
	switch x := (*cell).(type) {
	case Struct:
		for i := range x {
			if !seen[&x[i]] {
				seen[&x[i]] = true
				m.watch[&x[i]] = label
				m.snapshotInner(&x[i], label, seen, depth+1)
			}
		}
	case Array:
		for i := range x {
			if !seen[&x[i]] {
				seen[&x[i]] = true
				m.watch[&x[i]] = label
				m.snapshotInner(&x[i], label, seen, depth+1)
			}
		}
	default:
		m.snapshot(*cell, label, seen, depth+1)
	}
}

func addHavocIntrinsics(t map[string]intrinsic) {
	t[apiPkg+".Havoc"] = func(m *Machine, fr *frame, a []Value) Value {
		name := m.goString(a[0], "Havoc name")
		itf := a[1].(Iface)
		pt, ok := itf.T.Underlying().(*types.Pointer)
		cell, ok2 := itf.V.(*Value)
		if !ok || !ok2 || cell == nil {
			m.unsupported("Havoc: target must be a non-nil pointer")
		}
		// the first two havoc'd values of a path fork over all shape families; later ones rotate through
		// them deterministically (keeps the product of shapes bounded)
		m.havocCalls++
		if m.havocCalls <= 2 {
			m.havocFamily = m.namedChoice("havoc-shape-family:"+name, havocFamilies)
		} else {
			m.havocFamily = (m.havocFamily + m.havocCalls) % havocFamilies
			m.choiceLog[m.freshName("choice:havoc-shape-family:"+name)] = uint64(m.havocFamily)
		}
		m.store(cell, m.havocValue(pt.Elem(), name, 0))
		return nil
	}
	t[apiPkg+".Snapshot"] = func(m *Machine, fr *frame, a []Value) Value {
		if m.watch == nil {
			m.watch = map[*Value]string{}
			m.watchMaps = map[*MapV]string{}
		}
		m.snapSeq++
		label := fmt.Sprintf("snap%d", m.snapSeq)
		m.snapshot(a[0], label, map[*Value]bool{}, 0)
		return m.mkInt(int64(m.snapSeq), 64)
	}
	t[apiPkg+".Changed"] = func(m *Machine, fr *frame, a []Value) Value {
		id := a[0].(*sym.Term).Int(true)
		label := fmt.Sprintf("snap%d", id)
		for _, h := range m.watchHits {
			if h == label {
				return m.ctx.True
			}
		}
		return m.ctx.False
	}
}
