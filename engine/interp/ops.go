package interp

import (
	"fmt"
	"go/token"
	"go/types"
	"math"
	"unicode/utf8"

	"golang.org/x/tools/go/ssa"

	"verif/engine/sym"
)

func (m *Machine) unop(fr *frame, instr *ssa.UnOp, x Value) Value {
	switch instr.Op {
	case token.ARROW:
		ch := x.(*ChanV)
		et := instr.X.Type().Underlying().(*types.Chan).Elem()
		return m.chanRecv(ch, et, instr.CommaOk)
	case token.SUB:
		switch x := x.(type) {
		case *sym.Term:
			return m.ctx.Neg(x)
		case float64:
			return -x
		case complex128:
			return -x
		}
	case token.MUL:
		p := x.(*Value)
		return m.load(p)
	case token.NOT:
		return m.ctx.Not(x.(*sym.Term))
	case token.XOR:
		return m.ctx.BNot(x.(*sym.Term))
	}
	panic(fmt.Sprintf("invalid unary op %s %T", instr.Op, x))
}

func (m *Machine) binop(op token.Token, t types.Type, x, y Value, yt types.Type) Value {
	c := m.ctx
	switch op {
	case token.EQL:
		return m.equal(x, y)
	case token.NEQ:
		return c.Not(m.equal(x, y))
	}
	switch xv := x.(type) {
	case *sym.Term:
		yv := y.(*sym.Term)
		signed := isSigned(t)
		switch op {
		case token.ADD:
			return c.Add(xv, yv)
		case token.SUB:
			return c.Sub(xv, yv)
		case token.MUL:
			return c.Mul(xv, yv)
		case token.QUO, token.REM:
			if !yv.IsConst() {
				if m.branch(c.Eq(yv, c.Const(0, yv.W))) {
					m.runtimePanic("integer divide by zero")
				}
			} else if yv.Val == 0 {
				m.runtimePanic("integer divide by zero")
			}
			if op == token.QUO {
				if signed {
					return c.Bin(sym.OSDiv, xv, yv)
				}
				return c.Bin(sym.OUDiv, xv, yv)
			}
			if signed {
				return c.Bin(sym.OSRem, xv, yv)
			}
			return c.Bin(sym.OURem, xv, yv)
		case token.AND:
			if xv.W == 0 {
				return c.And(xv, yv)
			}
			return c.Bin(sym.OBAnd, xv, yv)
		case token.OR:
			if xv.W == 0 {
				return c.Or(xv, yv)
			}
			return c.Bin(sym.OBOr, xv, yv)
		case token.XOR:
			return c.Bin(sym.OBXor, xv, yv)
		case token.AND_NOT:
			return c.Bin(sym.OBAnd, xv, c.BNot(yv))
		case token.SHL, token.SHR:
			sh := m.shiftAmount(yv, xv.W, isSigned(yt))
			if op == token.SHL {
				return c.Bin(sym.OShl, xv, sh)
			}
			if signed {
				return c.Bin(sym.OAShr, xv, sh)
			}
			return c.Bin(sym.OLShr, xv, sh)
		case token.LSS:
			return c.Lt(xv, yv, signed)
		case token.LEQ:
			return c.Le(xv, yv, signed)
		case token.GTR:
			return c.Lt(yv, xv, signed)
		case token.GEQ:
			return c.Le(yv, xv, signed)
		}
	case float64:
		yv := y.(float64)
		f32 := false
		if b, ok := t.Underlying().(*types.Basic); ok && b.Kind() == types.Float32 {
			f32 = true
		}
		rnd := func(f float64) Value {
			if f32 {
				return float64(float32(f))
			}
			return f
		}
		switch op {
		case token.ADD:
			return rnd(xv + yv)
		case token.SUB:
			return rnd(xv - yv)
		case token.MUL:
			return rnd(xv * yv)
		case token.QUO:
			return rnd(xv / yv)
		case token.LSS:
			return c.Bool(xv < yv)
		case token.LEQ:
			return c.Bool(xv <= yv)
		case token.GTR:
			return c.Bool(xv > yv)
		case token.GEQ:
			return c.Bool(xv >= yv)
		}
	case complex128:
		yv := y.(complex128)
		switch op {
		case token.ADD:
			return xv + yv
		case token.SUB:
			return xv - yv
		case token.MUL:
			return xv * yv
		case token.QUO:
			return xv / yv
		}
	case Str:
		yv := y.(Str)
		switch op {
		case token.ADD:
			if len(xv.B) == 0 {
				return yv
			}
			if len(yv.B) == 0 {
				return xv
			}
			b := make([]*sym.Term, 0, len(xv.B)+len(yv.B))
			b = append(b, xv.B...)
			b = append(b, yv.B...)
			return Str{b}
		case token.LSS:
			return m.strLess(xv, yv, false)
		case token.LEQ:
			return m.strLess(xv, yv, true)
		case token.GTR:
			return m.strLess(yv, xv, false)
		case token.GEQ:
			return m.strLess(yv, xv, true)
		}
	}
	panic(fmt.Sprintf("invalid binary op: %T %s %T", x, op, y))
}

// shiftAmount converts a shift count of any width to width w, saturating.
func (m *Machine) shiftAmount(y *sym.Term, w int, ySigned bool) *sym.Term {
	c := m.ctx
	if y.IsConst() {
		if ySigned && y.Int(true) < 0 {
			m.runtimePanic("negative shift amount")
		}
		v := y.Val
		if v > uint64(w) {
			v = uint64(w)
		}
		return c.Const(v, w)
	}
	if ySigned {
		if m.branch(c.Slt(y, c.Const(0, y.W))) {
			m.runtimePanic("negative shift amount")
		}
	}
	if y.W == w {
		return y
	}
	if y.W < w {
		return c.Zext(y, w)
	}
	big := c.Ult(c.Const(uint64(w), y.W), y)
	return c.Ite(big, c.Const(uint64(w), w), c.Extract(y, w-1, 0))
}

// strEq builds the equality formula of two strings.
func (m *Machine) strEq(a, b Str) *sym.Term {
	if len(a.B) != len(b.B) {
		return m.ctx.False
	}
	r := m.ctx.True
	for i := range a.B {
		e := m.ctx.Eq(a.B[i], b.B[i])
		if e.IsFalse() {
			return e
		}
		r = m.ctx.And(r, e)
	}
	return r
}

// strLess: lexicographic a<b (or a<=b).
func (m *Machine) strLess(a, b Str, orEqual bool) *sym.Term {
	c := m.ctx
	n := len(a.B)
	if len(b.B) < n {
		n = len(b.B)
	}
	// tail: all common bytes equal
	var r *sym.Term
	if len(a.B) < len(b.B) {
		r = c.True
	} else if len(a.B) == len(b.B) {
		r = c.Bool(orEqual)
	} else {
		r = c.False
	}
	for i := n - 1; i >= 0; i-- {
		lt := c.Ult(a.B[i], b.B[i])
		eq := c.Eq(a.B[i], b.B[i])
		r = c.Or(lt, c.And(eq, r))
	}
	return r
}

// equal builds the equality formula for two values of the same static type.
func (m *Machine) equal(x, y Value) *sym.Term {
	c := m.ctx
	switch xv := x.(type) {
	case nil:
		return c.Bool(y == nil)
	case *sym.Term:
		return c.Eq(xv, y.(*sym.Term))
	case float64:
		return c.Bool(xv == y.(float64))
	case complex128:
		return c.Bool(xv == y.(complex128))
	case Str:
		return m.strEq(xv, y.(Str))
	case *Value:
		return c.Bool(xv == y.(*Value))
	case Iface:
		yv := y.(Iface)
		if xv.T == nil || yv.T == nil {
			return c.Bool(xv.T == nil && yv.T == nil)
		}
		if !types.Identical(xv.T, yv.T) {
			return c.False
		}
		if !types.Comparable(xv.T) {
			m.runtimePanic("comparing uncomparable type " + xv.T.String())
		}
		return m.equal(xv.V, yv.V)
	case Struct:
		yv := y.(Struct)
		r := c.True
		for i := range xv {
			r = c.And(r, m.equal(xv[i], yv[i]))
			if r.IsFalse() {
				return r
			}
		}
		return r
	case Array:
		yv := y.(Array)
		r := c.True
		for i := range xv {
			r = c.And(r, m.equal(xv[i], yv[i]))
			if r.IsFalse() {
				return r
			}
		}
		return r
	case Slice:
		yv := y.(Slice)
		if xv.Nil || yv.Nil {
			return c.Bool(xv.Nil && yv.Nil)
		}
		m.runtimePanic("comparing uncomparable type slice")
	case *MapV:
		return c.Bool(xv == y.(*MapV))
	case *ChanV:
		return c.Bool(xv == y.(*ChanV))
	case *ssa.Function:
		return c.Bool(false) // func values are only comparable with nil; a *ssa.Function is non-nil
	case *Closure:
		if yc, ok := y.(*Closure); ok {
			return c.Bool(xv == nil && yc == nil)
		}
		return c.False
	case UnsafePtr:
		yv := y.(UnsafePtr)
		xp, _ := xv.P.(*Value)
		yp, _ := yv.P.(*Value)
		return c.Bool(xp == yp && xv.Str == yv.Str)
	case Native:
		yn, ok := y.(Native)
		if !ok {
			return c.False
		}
		if xt, ok := xv.V.(types.Type); ok {
			if yt, ok := yn.V.(types.Type); ok {
				return c.Bool(types.Identical(xt, yt))
			}
			return c.False
		}
		return c.Bool(xv.V == yn.V)
	case *ssa.Builtin:
		return c.False
	}
	// func nil comparisons where x is a function and y a nil closure
	panic(fmt.Sprintf("equal: unhandled %T vs %T", x, y))
}

// ---- conversions ----

func (m *Machine) conv(tdst, tsrc types.Type, x Value) Value {
	c := m.ctx
	ud := tdst.Underlying()
	us := tsrc.Underlying()
	switch us := us.(type) {
	case *types.Pointer:
		switch ud := ud.(type) {
		case *types.Basic:
			if ud.Kind() == types.UnsafePointer {
				return UnsafePtr{P: x}
			}
		case *types.Pointer:
			return x
		}
	case *types.Slice:
		switch ud := ud.(type) {
		case *types.Basic:
			if ud.Info()&types.IsString != 0 {
				sl := x.(Slice)
				if b, ok := us.Elem().Underlying().(*types.Basic); ok && (b.Kind() == types.Uint8) {
					bs := make([]*sym.Term, len(sl.A))
					for i, e := range sl.A {
						bs[i] = e.(*sym.Term)
					}
					return Str{bs}
				}
				// []rune -> string (concrete only)
				rs := make([]rune, len(sl.A))
				for i, e := range sl.A {
					t := e.(*sym.Term)
					if !t.IsConst() {
						m.unsupported("string([]rune) with symbolic rune")
					}
					rs[i] = rune(t.Int(true))
				}
				return m.mkStr(string(rs))
			}
		case *types.Slice:
			return x
		}
	case *types.Basic:
		switch {
		case us.Kind() == types.UnsafePointer:
			up := x.(UnsafePtr)
			switch ud := ud.(type) {
			case *types.Pointer:
				if up.P == nil {
					if up.Str != nil || up.Data != nil {
						m.unsupported("unsafe.Pointer to data reinterpreted as %v", tdst)
					}
					return (*Value)(nil)
				}
				p := up.P.(*Value)
				if p == nil {
					return (*Value)(nil)
				}
				_ = ud
				return p
			case *types.Basic:
				if ud.Kind() == types.UnsafePointer {
					return x
				}
				if ud.Kind() == types.Uintptr {
					m.unsupported("unsafe.Pointer to uintptr")
				}
			}
		case us.Info()&types.IsString != 0 || us.Kind() == types.UntypedString:
			s := x.(Str)
			switch ud := ud.(type) {
			case *types.Slice:
				if b, ok := ud.Elem().Underlying().(*types.Basic); ok && b.Kind() == types.Uint8 {
					a := make([]Value, len(s.B))
					for i, t := range s.B {
						a[i] = t
					}
					return Slice{A: a}
				}
				// []rune
				cs, ok := s.Concrete()
				if !ok {
					// ASCII-only symbolic strings convert bytewise
					a := make([]Value, len(s.B))
					for i, t := range s.B {
						if !t.IsConst() {
							if !m.branch(c.Ult(t, c.Const(0x80, 8))) {
								m.unsupported("[]rune(string) with symbolic non-ASCII byte")
							}
						} else if t.Val >= 0x80 {
							m.unsupported("[]rune(string) with mixed symbolic/non-ASCII content")
						}
						a[i] = c.Zext(t, 32)
					}
					return Slice{A: a}
				}
				rs := []rune(cs)
				a := make([]Value, len(rs))
				for i, r := range rs {
					a[i] = c.Const(uint64(r), 32)
				}
				return Slice{A: a}
			case *types.Basic:
				if ud.Info()&types.IsString != 0 {
					return x
				}
			}
		case us.Info()&types.IsInteger != 0:
			t := x.(*sym.Term)
			switch ud := ud.(type) {
			case *types.Basic:
				switch {
				case ud.Info()&types.IsInteger != 0:
					return c.Resize(t, m.width(ud), isSigned(us))
				case ud.Info()&types.IsFloat != 0:
					if !t.IsConst() {
						v := m.concretize(t, "int to float conversion")
						t = c.Const(v, t.W)
					}
					var f float64
					if isSigned(us) {
						f = float64(t.Int(true))
					} else {
						f = float64(t.Val)
					}
					if ud.Kind() == types.Float32 {
						f = float64(float32(f))
					}
					return f
				case ud.Info()&types.IsString != 0:
					if !t.IsConst() {
						if m.branch(c.Ult(c.Zext(t, 64), c.Const(0x80, 64))) {
							return Str{[]*sym.Term{c.Resize(t, 8, false)}}
						}
						m.unsupported("string(int) with symbolic non-ASCII value")
					}
					return m.mkStr(string(rune(t.Int(isSigned(us)))))
				case ud.Kind() == types.UnsafePointer:
					if t.IsConst() && t.Val == 0 {
						return UnsafePtr{}
					}
					m.unsupported("uintptr to unsafe.Pointer")
				case ud.Info()&types.IsComplex != 0:
					return complex(float64(t.Int(isSigned(us))), 0)
				}
			}
		case us.Info()&types.IsFloat != 0:
			f := x.(float64)
			if b, ok := ud.(*types.Basic); ok {
				switch {
				case b.Info()&types.IsInteger != 0:
					w := m.width(b)
					if isSigned(b) {
						return c.Const(uint64(int64(f)), w)
					}
					if f < 0 {
						return c.Const(uint64(int64(f)), w)
					}
					if f >= math.MaxInt64 {
						return c.Const(uint64(f), w)
					}
					return c.Const(uint64(int64(f)), w)
				case b.Info()&types.IsFloat != 0:
					if b.Kind() == types.Float32 {
						return float64(float32(f))
					}
					return f
				}
			}
		case us.Info()&types.IsComplex != 0:
			return x
		case us.Info()&types.IsBoolean != 0:
			return x
		}
	case *types.Signature, *types.Map, *types.Chan, *types.Struct, *types.Array, *types.Interface:
		return x
	}
	panic(fmt.Sprintf("unsupported conversion: %v -> %v (%T)", tsrc, tdst, x))
}

// ---- maps ----

func (m *Machine) isConcreteKey(v Value) bool {
	switch v := v.(type) {
	case *sym.Term:
		return v.IsConst()
	case Str:
		return v.IsConcrete()
	case Struct:
		for _, f := range v {
			if !m.isConcreteKey(f) {
				return false
			}
		}
		return true
	case Array:
		for _, f := range v {
			if !m.isConcreteKey(f) {
				return false
			}
		}
		return true
	case Iface:
		if v.T == nil {
			return true
		}
		return m.isConcreteKey(v.V)
	}
	return true
}

// mapFind returns the index of key, forking on symbolic equalities.
func (m *Machine) mapFind(mp *MapV, key Value) int {
	if m.tl != nil && mp != nil {
		m.access(mp, false)
	}
	for i := range mp.Entries {
		e := m.equal(mp.Entries[i].K, key)
		if e.IsConst() {
			if e.Val == 1 {
				return i
			}
			continue
		}
		if m.branch(e) {
			return i
		}
	}
	return -1
}

func (m *Machine) mapSet(mp *MapV, key, val Value) {
	if m.watch != nil {
		if what, ok := m.watchMaps[mp]; ok {
			m.watchHits = append(m.watchHits, what)
		}
	}
	i := m.mapFind(mp, key)
	if m.tl != nil {
		m.access(mp, true)
	}
	if i >= 0 {
		mp.Entries[i].V = copyVal(val)
		return
	}
	mp.Entries = append(mp.Entries, &mapEntry{K: copyVal(key), V: copyVal(val)})
}

func (m *Machine) mapDelete(mp *MapV, key Value) {
	i := m.mapFind(mp, key)
	if i < 0 {
		return
	}
	if m.watch != nil {
		if what, ok := m.watchMaps[mp]; ok {
			m.watchHits = append(m.watchHits, what)
		}
	}
	if m.tl != nil {
		m.access(mp, true)
	}
	mp.Entries[i].deleted = true
	mp.Entries = append(mp.Entries[:i:i], mp.Entries[i+1:]...)
}

func (m *Machine) lookupOp(instr *ssa.Lookup, x, idx Value) Value {
	switch x := x.(type) {
	case Str:
		return m.strIndex(x, idx.(*sym.Term), isSigned(instr.Index.Type()))
	case *MapV:
		var v Value
		ok := false
		if x != nil {
			if i := m.mapFind(x, idx); i >= 0 {
				v = copyVal(x.Entries[i].V)
				ok = true
			}
		}
		if !ok {
			v = m.zero(instr.X.Type().Underlying().(*types.Map).Elem())
		}
		if instr.CommaOk {
			return Tuple{v, m.ctx.Bool(ok)}
		}
		return v
	}
	panic(fmt.Sprintf("lookup in %T", x))
}

// ---- range ----

type iterator interface {
	next(m *Machine) Value
}

type strIter struct {
	s Str
	i int
}

func (it *strIter) next(m *Machine) Value {
	c := m.ctx
	if it.i >= len(it.s.B) {
		return Tuple{c.False, c.Const(0, 64), c.Const(0, 32)}
	}
	b := it.s.B[it.i]
	idx := c.Const(uint64(it.i), 64)
	if b.IsConst() && b.Val < 0x80 {
		it.i++
		return Tuple{c.True, idx, c.Const(b.Val, 32)}
	}
	if !b.IsConst() {
		if m.branch(c.Ult(b, c.Const(0x80, 8))) {
			it.i++
			return Tuple{c.True, idx, c.Zext(b, 32)}
		}
		m.unsupported("range over string with symbolic non-ASCII byte")
	}
	// concrete multi-byte sequence: decode the longest concrete run
	var buf []byte
	for j := it.i; j < len(it.s.B) && j < it.i+4; j++ {
		if !it.s.B[j].IsConst() {
			break
		}
		buf = append(buf, byte(it.s.B[j].Val))
	}
	r, size := utf8.DecodeRune(buf)
	it.i += size
	return Tuple{c.True, idx, c.Const(uint64(r), 32)}
}

type mapIter struct {
	mp      *MapV
	entries []*mapEntry
	i       int
}

func (it *mapIter) next(m *Machine) Value {
	for it.i < len(it.entries) {
		e := it.entries[it.i]
		it.i++
		if e.deleted {
			continue
		}
		return Tuple{m.ctx.True, copyVal(e.K), copyVal(e.V)}
	}
	var kz, vz Value
	if it.mp != nil {
		kz, vz = m.zero(it.mp.KT), m.zero(it.mp.VT)
	}
	return Tuple{m.ctx.False, kz, vz}
}

func (m *Machine) rangeIter(x Value, t types.Type) iterator {
	switch x := x.(type) {
	case *MapV:
		if x == nil {
			return &mapIter{}
		}
		ents := append([]*mapEntry(nil), x.Entries...)
		if m.cfg.MapOrderAll && len(ents) > 1 && !m.inInit {
			if m.cfg.MapOrderSeeds > 0 {
				// a family of iteration-order assignments: one fork over the family per path, then every range
				// starts at an offset derived from (family member, range number); member 0 is insertion order
				if m.mapOrderSeed < 0 {
					m.mapOrderSeed = m.choice(m.cfg.MapOrderSeeds)
				}
				m.mapRangeNo++
				if m.mapOrderSeed > 0 {
					h := uint64(m.mapOrderSeed)*0x9E3779B97F4A7C15 + uint64(m.mapRangeNo)*0xBF58476D1CE4E5B9
					h ^= h >> 29
					k := int(h % uint64(len(ents)))
					ents = append(append([]*mapEntry(nil), ents[k:]...), ents[:k]...)
				}
			} else if m.cfg.MapOrderRotations {
				// Go iterates a small map (one bucket, <= 8 entries) from a random offset, wrapping around
				k := m.choice(len(ents))
				ents = append(append([]*mapEntry(nil), ents[k:]...), ents[:k]...)
			} else {
				// arbitrary permutation: pick successively
				perm := make([]*mapEntry, 0, len(ents))
				rest := ents
				for len(rest) > 1 {
					k := m.choice(len(rest))
					perm = append(perm, rest[k])
					rest = append(append([]*mapEntry(nil), rest[:k]...), rest[k+1:]...)
				}
				perm = append(perm, rest[0])
				ents = perm
			}
		}
		return &mapIter{mp: x, entries: ents}
	case Str:
		return &strIter{s: x}
	}
	panic(fmt.Sprintf("cannot range over %T", x))
}
