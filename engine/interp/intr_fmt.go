package interp

import (
	"fmt"
	"go/types"
	"sort"
	"strings"

	"golang.org/x/tools/go/ssa"

	"verif/engine/sym"
)

var errorIface *types.Interface

func errorInterface() *types.Interface {
	if errorIface == nil {
		errorIface = types.Universe.Lookup("error").Type().Underlying().(*types.Interface)
	}
	return errorIface
}

// methodOf finds a method by name in the method set of dynamic type t.
func (m *Machine) methodOf(t types.Type, name string) *ssa.Function {
	ms := m.prog.MethodSets.MethodSet(t)
	for i := 0; i < ms.Len(); i++ {
		sel := ms.At(i)
		if sel.Obj().Name() == name {
			return m.prog.MethodValue(sel)
		}
	}
	return nil
}

func (m *Machine) callMethod(fr *frame, recv Iface, name string, args ...Value) (Value, bool) {
	if recv.T == nil {
		return nil, false
	}
	f := m.methodOf(recv.T, name)
	if f == nil {
		return nil, false
	}
	all := append([]Value{recv.V}, args...)
	return m.callFunction(fr, f, all, nil), true
}

func sigIs(f *ssa.Function, params, results []string) bool {
	s := f.Signature
	if s.Params().Len() != len(params) || s.Results().Len() != len(results) {
		return false
	}
	for i, p := range params {
		if types.TypeString(s.Params().At(i).Type(), nil) != p {
			return false
		}
	}
	for i, r := range results {
		if types.TypeString(s.Results().At(i).Type(), nil) != r {
			return false
		}
	}
	return true
}

// errorsIs re-implements errors.Is on interpreter values, calling the real
// Is/Unwrap methods of the error types through SSA.
func (m *Machine) errorsIs(fr *frame, err, target Iface) bool {
	if err.T == nil || target.T == nil {
		return err.T == nil && target.T == nil
	}
	comparable := types.Comparable(target.T)
	return m.errorsIsRec(fr, err, target, comparable, 0)
}

func (m *Machine) errorsIsRec(fr *frame, err, target Iface, comparable bool, depth int) bool {
	if depth > 64 {
		m.endPath("bound", "errors.Is chain too deep")
	}
	for {
		if err.T == nil {
			return false
		}
		if comparable && types.Identical(err.T, target.T) && types.Comparable(err.T) {
			if m.branch(m.equal(err.V, target.V)) {
				return true
			}
		}
		if f := m.methodOf(err.T, "Is"); f != nil && sigIs(f, []string{"error"}, []string{"bool"}) {
			r := m.callFunction(fr, f, []Value{err.V, target}, nil).(*sym.Term)
			if m.branch(r) {
				return true
			}
		}
		f := m.methodOf(err.T, "Unwrap")
		if f == nil {
			return false
		}
		switch {
		case sigIs(f, nil, []string{"error"}):
			next := m.callFunction(fr, f, []Value{err.V}, nil).(Iface)
			if next.T == nil {
				return false
			}
			err = next
			depth++
			if depth > 64 {
				m.endPath("bound", "errors.Is chain too deep")
			}
		case sigIs(f, nil, []string{"[]error"}):
			list := m.callFunction(fr, f, []Value{err.V}, nil).(Slice)
			for _, e := range list.A {
				if m.errorsIsRec(fr, e.(Iface), target, comparable, depth+1) {
					return true
				}
			}
			return false
		default:
			return false
		}
	}
}

func (m *Machine) errorsAs(fr *frame, err Iface, target Iface) bool {
	if err.T == nil {
		return false
	}
	if target.T == nil {
		m.runtimePanic("errors: target cannot be nil")
	}
	pt, ok := target.T.Underlying().(*types.Pointer)
	if !ok {
		m.runtimePanic("errors: target must be a non-nil pointer")
	}
	cell := target.V.(*Value)
	if cell == nil {
		m.runtimePanic("errors: target must be a non-nil pointer")
	}
	tt := pt.Elem()
	return m.errorsAsRec(fr, err, target, tt, cell, 0)
}

func (m *Machine) errorsAsRec(fr *frame, err, target Iface, tt types.Type, cell *Value, depth int) bool {
	for {
		if depth > 64 {
			m.endPath("bound", "errors.As chain too deep")
		}
		if err.T == nil {
			return false
		}
		if it, ok := tt.Underlying().(*types.Interface); ok {
			if m.implements(err.T, it) {
				m.store(cell, err)
				return true
			}
		} else if types.Identical(err.T, tt) {
			m.store(cell, err.V)
			return true
		}
		if f := m.methodOf(err.T, "As"); f != nil && f.Signature.Params().Len() == 1 && f.Signature.Results().Len() == 1 {
			r := m.callFunction(fr, f, []Value{err.V, target}, nil).(*sym.Term)
			if m.branch(r) {
				return true
			}
		}
		f := m.methodOf(err.T, "Unwrap")
		if f == nil {
			return false
		}
		switch {
		case sigIs(f, nil, []string{"error"}):
			next := m.callFunction(fr, f, []Value{err.V}, nil).(Iface)
			if next.T == nil {
				return false
			}
			err = next
			depth++
		case sigIs(f, nil, []string{"[]error"}):
			list := m.callFunction(fr, f, []Value{err.V}, nil).(Slice)
			for _, e := range list.A {
				if m.errorsAsRec(fr, e.(Iface), target, tt, cell, depth+1) {
					return true
				}
			}
			return false
		default:
			return false
		}
	}
}

// ---- formatting ----

// nativeScalar converts a concrete interpreter value to a Go value for fmt.
func (m *Machine) nativeScalar(v Iface) (interface{}, bool) {
	if v.T == nil {
		return nil, true
	}
	switch x := v.V.(type) {
	case *sym.Term:
		if !x.IsConst() {
			return nil, false
		}
		b, ok := v.T.Underlying().(*types.Basic)
		if !ok {
			return nil, false
		}
		switch b.Kind() {
		case types.Bool:
			return x.Val == 1, true
		case types.Int:
			return int(x.Int(true)), true
		case types.Int8:
			return int8(x.Int(true)), true
		case types.Int16:
			return int16(x.Int(true)), true
		case types.Int32:
			return int32(x.Int(true)), true
		case types.Int64:
			return x.Int(true), true
		case types.Uint:
			return uint(x.Val), true
		case types.Uint8:
			return uint8(x.Val), true
		case types.Uint16:
			return uint16(x.Val), true
		case types.Uint32:
			return uint32(x.Val), true
		case types.Uint64:
			return x.Val, true
		case types.Uintptr:
			return uintptr(x.Val), true
		}
	case float64:
		return x, true
	case Str:
		if s, ok := x.Concrete(); ok {
			return s, true
		}
	}
	return nil, false
}

// argString renders an argument for %v / %s.
func (m *Machine) argString(fr *frame, a Value, verb byte) Str {
	itf, ok := a.(Iface)
	if !ok {
		return m.mkStr(m.DebugString(a))
	}
	if itf.T == nil {
		if verb == 's' {
			return m.mkStr("%!s(<nil>)")
		}
		return m.mkStr("<nil>")
	}
	// error / Stringer
	if verb != 'T' {
		if p, isPtr := itf.V.(*Value); !(isPtr && p == nil) {
			if f := m.methodOf(itf.T, "Error"); f != nil && sigIs(f, nil, []string{"string"}) {
				return m.callFunction(fr, f, []Value{itf.V}, nil).(Str)
			}
			if f := m.methodOf(itf.T, "String"); f != nil && sigIs(f, nil, []string{"string"}) {
				return m.callFunction(fr, f, []Value{itf.V}, nil).(Str)
			}
		} else if m.methodOf(itf.T, "Error") != nil || m.methodOf(itf.T, "String") != nil {
			return m.mkStr("<nil>")
		}
	}
	switch x := itf.V.(type) {
	case Str:
		return x
	case *sym.Term:
		if n, ok := m.nativeScalar(itf); ok {
			return m.mkStr(fmt.Sprint(n))
		}
		v := m.concretize(x, "formatting a symbolic integer")
		n, _ := m.nativeScalar(Iface{T: itf.T, V: m.ctx.Const(v, x.W)})
		return m.mkStr(fmt.Sprint(n))
	case float64:
		return m.mkStr(fmt.Sprint(x))
	case Slice:
		// []string / []byte and friends
		if st, ok := itf.T.Underlying().(*types.Slice); ok {
			if b, ok := st.Elem().Underlying().(*types.Basic); ok && b.Kind() == types.Uint8 && verb == 's' {
				return Str{sliceTerms(x)}
			}
			var out []*sym.Term
			out = append(out, m.ctx.Const('[', 8))
			for i, e := range x.A {
				if i > 0 {
					out = append(out, m.ctx.Const(' ', 8))
				}
				if ei, isIface := e.(Iface); isIface {
					out = append(out, m.argString(fr, ei, 'v').B...)
				} else {
					out = append(out, m.argString(fr, Iface{T: st.Elem(), V: e}, 'v').B...)
				}
			}
			out = append(out, m.ctx.Const(']', 8))
			return Str{out}
		}
	}
	// maps print as map[k:v k2:v2] with sorted keys, like fmt does
	if mp, ok := itf.V.(*MapV); ok {
		if mp == nil {
			return m.mkStr("map[]")
		}
		type kv struct {
			k string
			e *mapEntry
		}
		var ents []kv
		allConcrete := true
		for _, e := range mp.Entries {
			ks, isStr := e.K.(Str)
			cs, conc := "", false
			if isStr {
				cs, conc = ks.Concrete()
			}
			if !conc {
				allConcrete = false
				break
			}
			ents = append(ents, kv{cs, e})
		}
		if allConcrete {
			sort.Slice(ents, func(i, j int) bool { return ents[i].k < ents[j].k })
			out := m.mkStr("map[").B
			for i, e := range ents {
				if i > 0 {
					out = append(out, m.ctx.Const(' ', 8))
				}
				out = append(out, m.mkStr(e.k+":").B...)
				val := e.e.V
				if _, isIface := val.(Iface); !isIface {
					val = Iface{T: mp.VT, V: val}
				}
				out = append(out, m.argString(fr, val, 'v').B...)
			}
			return Str{append(out, m.ctx.Const(']', 8))}
		}
	}
	return m.mkStr(m.DebugString(itf.V))
}

// sprintf is a small re-implementation of fmt's verbs that works on symbolic strings.
func (m *Machine) sprintf(fr *frame, format string, args []Value) (Str, Iface) {
	var out []*sym.Term
	var wrapped Iface
	emit := func(s string) {
		out = append(out, m.mkStr(s).B...)
	}
	ai := 0
	for i := 0; i < len(format); i++ {
		ch := format[i]
		if ch != '%' {
			out = append(out, m.ctx.Const(uint64(ch), 8))
			continue
		}
		j := i + 1
		for j < len(format) && strings.IndexByte("+-# 0123456789.*", format[j]) >= 0 {
			j++
		}
		if j >= len(format) {
			emit("%!(NOVERB)")
			break
		}
		verb := format[j]
		spec := format[i : j+1]
		i = j
		if verb == '%' {
			emit("%")
			continue
		}
		if ai >= len(args) {
			emit("%!" + string(verb) + "(MISSING)")
			continue
		}
		a := args[ai]
		ai++
		itf, _ := a.(Iface)
		switch verb {
		case 'w':
			wrapped = itf
			out = append(out, m.argString(fr, a, 'v').B...)
		case 'T':
			if itf.T == nil {
				emit("<nil>")
			} else {
				emit(types.TypeString(itf.T, func(p *types.Package) string { return p.Name() }))
			}
		case 's', 'v', 'q', 'd', 'x', 'X', 't', 'c', 'f', 'g', 'e', 'p', 'o', 'b', 'U':
			if n, ok := m.nativeScalar(itf); ok && itf.T != nil {
				emit(fmt.Sprintf(spec, n))
				continue
			}
			s := m.argString(fr, a, verb)
			if spec == "%s" || spec == "%v" || spec == "%+v" || spec == "%d" {
				out = append(out, s.B...)
			} else if cs, ok := s.Concrete(); ok {
				if verb == 'd' || verb == 't' || verb == 'v' {
					emit(cs)
				} else {
					emit(fmt.Sprintf(spec, cs))
				}
			} else if verb == 'q' {
				out = append(out, m.ctx.Const('"', 8))
				out = append(out, s.B...)
				out = append(out, m.ctx.Const('"', 8))
			} else {
				out = append(out, s.B...)
			}
		default:
			emit("%!" + string(verb) + "(?)")
		}
	}
	return Str{out}, wrapped
}

func variadicArgs(v Value) []Value {
	sl, ok := v.(Slice)
	if !ok {
		return nil
	}
	return sl.A
}

func addErrorsFmtIntrinsics(t map[string]intrinsic) {
	t["errors.Is"] = func(m *Machine, fr *frame, a []Value) Value {
		return m.ctx.Bool(m.errorsIs(fr, a[0].(Iface), a[1].(Iface)))
	}
	t["errors.As"] = func(m *Machine, fr *frame, a []Value) Value {
		return m.ctx.Bool(m.errorsAs(fr, a[0].(Iface), a[1].(Iface)))
	}
	t["fmt.Sprintf"] = func(m *Machine, fr *frame, a []Value) Value {
		s, _ := m.sprintf(fr, m.goString(a[0], "fmt.Sprintf format"), variadicArgs(a[1]))
		return s
	}
	t["fmt.Errorf"] = func(m *Machine, fr *frame, a []Value) Value {
		s, wrapped := m.sprintf(fr, m.goString(a[0], "fmt.Errorf format"), variadicArgs(a[1]))
		if wrapped.T != nil || strings.Contains(m.goString(a[0], "fmt.Errorf format"), "%w") {
			wt := m.lookupType("fmt", "wrapError")
			cell := new(Value)
			*cell = Struct{s, wrapped}
			return Iface{T: types.NewPointer(wt), V: cell}
		}
		et := m.lookupType("errors", "errorString")
		cell := new(Value)
		*cell = Struct{s}
		return Iface{T: types.NewPointer(et), V: cell}
	}
	sprint := func(sep bool, nl bool) intrinsic {
		return func(m *Machine, fr *frame, a []Value) Value {
			var out []*sym.Term
			for i, arg := range variadicArgs(a[0]) {
				if i > 0 && sep {
					out = append(out, m.ctx.Const(' ', 8))
				}
				out = append(out, m.argString(fr, arg, 'v').B...)
			}
			if nl {
				out = append(out, m.ctx.Const('\n', 8))
			}
			return Str{out}
		}
	}
	t["fmt.Sprint"] = sprint(false, false)
	t["fmt.Sprintln"] = sprint(true, true)
	fprint := func(format bool) intrinsic {
		return func(m *Machine, fr *frame, a []Value) Value {
			var s Str
			if format {
				s, _ = m.sprintf(fr, m.goString(a[1], "fmt.Fprintf format"), variadicArgs(a[2]))
			} else {
				var out []*sym.Term
				for _, arg := range variadicArgs(a[1]) {
					out = append(out, m.argString(fr, arg, 'v').B...)
				}
				s = Str{out}
			}
			w := a[0].(Iface)
			if w.T == nil {
				m.runtimePanic("nil io.Writer")
			}
			r, ok := m.callMethod(fr, w, "Write", m.bytesToSlice(s.B))
			if !ok {
				panic("fmt.Fprint: writer without Write")
			}
			return r
		}
	}
	t["fmt.Fprintf"] = fprint(true)
	t["fmt.Fprint"] = fprint(false)
	nop := func(m *Machine, fr *frame, a []Value) Value {
		return Tuple{m.mkInt(0, 64), Iface{}}
	}
	t["fmt.Printf"] = nop
	t["fmt.Println"] = nop
	t["fmt.Print"] = nop
}
