package interp

import (
	"fmt"
	"go/types"
	"strings"

	"golang.org/x/tools/go/ssa"

	"verif/engine/sym"
)

type intrinsic func(m *Machine, fr *frame, args []Value) Value

const apiPkg = "github.com/dadrus/heimdall/internal/verifapi"

// packages whose initialisers are never run (their functions are stubbed)
var skipInit = map[string]bool{
	"github.com/rs/zerolog":     true,
	"github.com/rs/zerolog/log": true,
	"runtime":                   true,
	"syscall":                   true,
	"internal/poll":             true,
	"internal/cpu":              true,
	"internal/godebug":          true,
	"reflect":                   true,
	"internal/reflectlite":      true,
	"log":                       true,
	"testing":                   true,
}

// package prefixes whose functions are no-op stubs returning zero values
var stubPkgs = []string{
	"github.com/rs/zerolog",
	"github.com/dadrus/heimdall/internal/accesscontext",
	"go.opentelemetry.io/",
	"go.uber.org/fx",
	"go.uber.org/dig",
	"github.com/dadrus/httpsig",
	"log",
	"log/slog",
	"runtime/debug",
	"internal/godebug",
	"internal/race",
	"internal/msan",
	"internal/asan",
}

func pkgPathOf(fn *ssa.Function) string {
	if fn.Pkg != nil {
		return fn.Pkg.Pkg.Path()
	}
	if fn.Signature.Recv() != nil {
		t := fn.Signature.Recv().Type()
		if p, ok := t.(*types.Pointer); ok {
			t = p.Elem()
		}
		if n, ok := types.Unalias(t).(*types.Named); ok && n.Obj().Pkg() != nil {
			return n.Obj().Pkg().Path()
		}
	}
	if o := fn.Origin(); o != nil && o != fn {
		return pkgPathOf(o)
	}
	if fn.Object() != nil && fn.Object().Pkg() != nil {
		return fn.Object().Pkg().Path()
	}
	return ""
}

func (m *Machine) findIntrinsic(fn *ssa.Function) intrinsic {
	name := fn.String()
	if in, ok := m.intrinsics[name]; ok {
		return m.countStub(name, in)
	}
	if o := fn.Origin(); o != nil && o != fn {
		if in, ok := m.intrinsics[o.String()]; ok {
			return m.countStub(o.String(), in)
		}
	}
	// harness-defined replacement of an environment-facing function of the package under test:
	// func verifStub_<Receiver>_<name>(recv, args...) in the same package (engine only; natively the
	// real function runs against an environment the harness arranges)
	if fn.Pkg != nil && fn.Synthetic == "" {
		stubName := "verifStub_" + fn.Name()
		if recv := fn.Signature.Recv(); recv != nil {
			rt := recv.Type()
			if p, ok := rt.(*types.Pointer); ok {
				rt = p.Elem()
			}
			if n, ok := types.Unalias(rt).(*types.Named); ok {
				stubName = "verifStub_" + n.Obj().Name() + "_" + fn.Name()
			}
		}
		if sf := fn.Pkg.Func(stubName); sf != nil {
			// a harness may switch its stand-in off for an entry that exercises the real body: a package
			// level variable  verifStubOff_<name>  set to true
			off, _ := fn.Pkg.Members["verifStubOff_"+strings.TrimPrefix(stubName, "verifStub_")].(*ssa.Global)
			return m.countStub(name+" (harness stub "+stubName+")", func(mm *Machine, fr *frame, args []Value) Value {
				if off != nil {
					if t, ok := mm.load(mm.global(off)).(*sym.Term); ok && t.IsTrue() {
						return mm.callBody(fr.caller, fn, args, nil)
					}
				}
				return mm.callFunction(fr.caller, sf, args, nil)
			})
		}
	}
	// synthetic wrappers ($bound, $thunk) keep their body: they call the real thing
	if fn.Synthetic != "" && !strings.HasPrefix(fn.Synthetic, "instance of") && !strings.HasPrefix(fn.Synthetic, "package initializer") {
		if !strings.Contains(fn.Synthetic, "wrapper") && !strings.Contains(fn.Synthetic, "thunk") && !strings.Contains(fn.Synthetic, "bound") {
			// e.g. "from type information" (no body) falls through
		} else {
			return nil
		}
	}
	pp := pkgPathOf(fn)
	for _, p := range stubPkgs {
		if pp == p || (strings.HasSuffix(p, "/") && strings.HasPrefix(pp, p)) || strings.HasPrefix(pp, p+"/") {
			return m.countStub(name, zeroStub(fn))
		}
	}
	return nil
}

func (m *Machine) countStub(name string, in intrinsic) intrinsic {
	return func(mm *Machine, fr *frame, args []Value) Value {
		mm.stubsSeen[name]++
		return in(mm, fr, args)
	}
}

// zeroStub returns the zero value(s) of the result types; methods whose
// result type equals the receiver type return the receiver (fluent APIs).
func zeroStub(fn *ssa.Function) intrinsic {
	return func(m *Machine, fr *frame, args []Value) Value {
		res := fn.Signature.Results()
		if res.Len() == 0 {
			return nil
		}
		if res.Len() == 1 {
			if recv := fn.Signature.Recv(); recv != nil && len(args) > 0 && types.Identical(recv.Type(), res.At(0).Type()) {
				return args[0]
			}
			// context-returning helpers hand back the context argument
			if isContextType(res.At(0).Type()) {
				for i, a := range args {
					pi := i
					if fn.Signature.Recv() != nil {
						pi = i - 1
					}
					if pi >= 0 && pi < fn.Signature.Params().Len() && isContextType(fn.Signature.Params().At(pi).Type()) {
						return a
					}
				}
			}
			// pointer results of stubbed fluent/logging APIs are never nil
			if pt, ok := res.At(0).Type().Underlying().(*types.Pointer); ok {
				if _, isStruct := pt.Elem().Underlying().(*types.Struct); isStruct {
					cell := new(Value)
					*cell = m.zero(pt.Elem())
					return cell
				}
			}
			return m.zero(res.At(0).Type())
		}
		return m.zero(res)
	}
}

func isContextType(t types.Type) bool {
	n, ok := types.Unalias(t).(*types.Named)
	return ok && n.Obj().Pkg() != nil && n.Obj().Pkg().Path() == "context" && n.Obj().Name() == "Context"
}

func (m *Machine) goString(v Value, what string) string {
	s, ok := v.(Str)
	if !ok {
		panic(fmt.Sprintf("%s: expected string, got %T", what, v))
	}
	cs, ok := s.Concrete()
	if !ok {
		m.unsupported("%s: symbolic string where a concrete one is required", what)
	}
	return cs
}

func (m *Machine) namedChoice(name string, n int) int {
	k := m.choice(n)
	m.choiceLog[m.freshName("choice:"+name)] = uint64(k)
	return k
}

func (m *Machine) nondetBytes(name string, n int) []*sym.Term {
	bs := make([]*sym.Term, n)
	for i := range bs {
		bs[i] = m.nondet(fmt.Sprintf("%s[%d]", name, i), 8)
	}
	return bs
}

func buildIntrinsics() map[string]intrinsic {
	t := map[string]intrinsic{}

	// ---- verifapi ----
	t[apiPkg+".NondetBool"] = func(m *Machine, fr *frame, a []Value) Value {
		v := m.nondet(m.goString(a[0], "NondetBool"), 1)
		return m.ctx.Eq(v, m.ctx.Const(1, 1))
	}
	t[apiPkg+".NondetInt"] = func(m *Machine, fr *frame, a []Value) Value {
		return m.nondet(m.goString(a[0], "NondetInt"), 64)
	}
	t[apiPkg+".NondetUint64"] = t[apiPkg+".NondetInt"]
	t[apiPkg+".NondetInt32"] = func(m *Machine, fr *frame, a []Value) Value {
		return m.nondet(m.goString(a[0], "NondetInt32"), 32)
	}
	t[apiPkg+".NondetByte"] = func(m *Machine, fr *frame, a []Value) Value {
		return m.nondet(m.goString(a[0], "NondetByte"), 8)
	}
	t[apiPkg+".NondetByteRange"] = func(m *Machine, fr *frame, a []Value) Value {
		v := m.nondet(m.goString(a[0], "NondetByteRange"), 8)
		lo, hi := a[1].(*sym.Term), a[2].(*sym.Term)
		m.assume(m.ctx.And(m.ctx.Ule(lo, v), m.ctx.Ule(v, hi)))
		if lo.IsConst() && hi.IsConst() && lo.Val <= hi.Val {
			m.noteRange(v, lo.Val, hi.Val)
		}
		return v
	}
	t[apiPkg+".NondetIntRange"] = func(m *Machine, fr *frame, a []Value) Value {
		v := m.nondet(m.goString(a[0], "NondetIntRange"), 64)
		lo, hi := a[1].(*sym.Term), a[2].(*sym.Term)
		m.assume(m.ctx.And(m.ctx.Sle(lo, v), m.ctx.Sle(v, hi)))
		return v
	}
	t[apiPkg+".NondetBytes"] = func(m *Machine, fr *frame, a []Value) Value {
		n := int(m.concInt(a[1], "NondetBytes length"))
		bs := m.nondetBytes(m.goString(a[0], "NondetBytes"), n)
		vs := make([]Value, n)
		for i := range bs {
			vs[i] = bs[i]
		}
		return Slice{A: vs}
	}
	t[apiPkg+".NondetStringN"] = func(m *Machine, fr *frame, a []Value) Value {
		n := int(m.concInt(a[1], "NondetStringN length"))
		return Str{m.nondetBytes(m.goString(a[0], "NondetStringN"), n)}
	}
	t[apiPkg+".NondetString"] = func(m *Machine, fr *frame, a []Value) Value {
		name := m.goString(a[0], "NondetString")
		max := int(m.concInt(a[1], "NondetString max length"))
		n := m.namedChoice("len:"+name, max+1)
		return Str{m.nondetBytes(name, n)}
	}
	t[apiPkg+".NondetChoice"] = func(m *Machine, fr *frame, a []Value) Value {
		name := m.goString(a[0], "NondetChoice")
		n := int(m.concInt(a[1], "NondetChoice n"))
		return m.mkInt(int64(m.namedChoice(name, n)), 64)
	}
	t[apiPkg+".Assume"] = func(m *Machine, fr *frame, a []Value) Value {
		m.assume(a[0].(*sym.Term))
		return nil
	}
	t[apiPkg+".Assert"] = func(m *Machine, fr *frame, a []Value) Value {
		m.assert(m.goString(a[0], "Assert label"), a[1].(*sym.Term))
		return nil
	}
	t[apiPkg+".Region"] = func(m *Machine, fr *frame, a []Value) Value {
		m.regions = append(m.regions, region{m.goString(a[0], "Region id"), a[1].(*sym.Term)})
		return nil
	}
	// SetField(ptrToStruct, "Field", value): lets a harness stand-in of a decoder fill a target whose
	// (function-local) type it cannot name
	t[apiPkg+".SetField"] = func(m *Machine, fr *frame, a []Value) Value {
		obj, ok := a[0].(Iface)
		cell, ok2 := obj.V.(*Value)
		if !ok || !ok2 || cell == nil {
			m.unsupported("SetField: target is not a pointer to a struct")
		}
		name := m.goString(a[1], "SetField name")
		st := (*cell).(Struct)
		v := a[2].(Iface)
		idx := fieldIndex(obj.T, name)
		// like a decoder: a pointer value for a non-pointer field means "key absent" when nil (the field
		// keeps its value) and the pointed-to value otherwise, so that the stand-in stays valid when the
		// code under test changes the field between T and *T
		ft := obj.T.Underlying().(*types.Pointer).Elem().Underlying().(*types.Struct).Field(idx).Type()
		if vp, isPtr := v.T.Underlying().(*types.Pointer); isPtr {
			if _, fieldIsPtr := ft.Underlying().(*types.Pointer); !fieldIsPtr && types.Identical(vp.Elem(), ft) {
				if pc, _ := v.V.(*Value); pc != nil {
					st[idx] = copyVal(*pc)
				}
				return nil
			}
		}
		st[idx] = copyVal(v.V)
		return nil
	}
	t[apiPkg+".Concurrent"] = func(m *Machine, fr *frame, a []Value) Value {
		m.threadLayer().prefix = m.goString(a[0], "Concurrent prefix")
		return nil
	}
	t[apiPkg+".Go"] = func(m *Machine, fr *frame, a []Value) Value {
		m.threadGo(m.goString(a[0], "Go name"), a[1])
		return nil
	}
	t[apiPkg+".Join"] = func(m *Machine, fr *frame, a []Value) Value {
		m.threadJoin()
		return nil
	}
	t[apiPkg+".Cover"] = func(m *Machine, fr *frame, a []Value) Value {
		m.res.Covers = append(m.res.Covers, m.goString(a[0], "Cover label"))
		return nil
	}
	t[apiPkg+".Observe"] = func(m *Machine, fr *frame, a []Value) Value {
		m.res.Observed = append(m.res.Observed, m.goString(a[0], "Observe key")+"="+m.DebugString(a[1]))
		return nil
	}
	t[apiPkg+".Opaque"] = func(m *Machine, fr *frame, a []Value) Value {
		name := m.goString(a[0], "Opaque")
		return m.mkStr("⟦" + m.freshName("opaque:"+name) + "⟧")
	}
	t[apiPkg+".Bound"] = func(m *Machine, fr *frame, a []Value) Value {
		name := m.goString(a[0], "Bound")
		if v, ok := m.cfg.Bounds[name]; ok {
			return m.mkInt(int64(v), 64)
		}
		return a[1]
	}
	t[apiPkg+".AdvanceClock"] = func(m *Machine, fr *frame, a []Value) Value {
		m.advanceClock(m.goString(a[0], "AdvanceClock"), m.concInt(a[1], "AdvanceClock max"))
		return nil
	}
	t[apiPkg+".Mark"] = func(m *Machine, fr *frame, a []Value) Value {
		m.marks[m.goString(a[0], "Mark")]++
		return nil
	}
	t[apiPkg+".Marked"] = func(m *Machine, fr *frame, a []Value) Value {
		return m.mkInt(int64(m.marks[m.goString(a[0], "Marked")]), 64)
	}
	t[apiPkg+".Symbolic"] = func(m *Machine, fr *frame, a []Value) Value { return m.ctx.True }
	t[apiPkg+".Now"] = func(m *Machine, fr *frame, a []Value) Value { return m.timeNow() }
	t[apiPkg+".load"] = func(m *Machine, fr *frame, a []Value) Value { return nil }

	addStringIntrinsics(t)
	addSyncIntrinsics(t)
	addErrorsFmtIntrinsics(t)
	addTimeIntrinsics(t)
	addMiscIntrinsics(t)
	addReflectIntrinsics(t)
	addStubIntrinsics(t)
	addHashIntrinsics(t)
	addNetIntrinsics(t)
	addHavocIntrinsics(t)
	addHTTPIntrinsics(t)
	return t
}
