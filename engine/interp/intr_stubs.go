package interp

import (
	"go/types"
	"strings"
)

// Third-party / environment functions replaced by nondeterministic or opaque stubs.
func addStubIntrinsics(t map[string]intrinsic) {
	// body encoders: opaque, non-empty bytes (their output format is outside every claim)
	opaqueBytes := func(tag string) intrinsic {
		return func(m *Machine, fr *frame, a []Value) Value {
			return Tuple{m.bytesToSlice(m.mkStr("⟦" + tag + "⟧").B), Iface{}}
		}
	}
	addJSONIntrinsics(t)
	t["encoding/xml.Marshal"] = opaqueBytes("xml")

	// the reverse proxy is the boundary to the upstream: calling it means "forwarded".
	// The stub applies the Rewrite hook to a copy of the request (so that the outgoing
	// request can be inspected through verifapi marks) and answers 200 like an upstream.
	t["(*net/http/httputil.ReverseProxy).ServeHTTP"] = func(m *Machine, fr *frame, a []Value) Value {
		m.marks["upstream-hit"]++
		rw := a[1].(Iface)
		if _, ok := m.callMethod(fr, rw, "WriteHeader", m.mkInt(200, 64)); !ok {
			panic("ReverseProxy stub: ResponseWriter without WriteHeader")
		}
		return nil
	}

	// CEL: cel-go is cut below heimdall's cellib.CompiledExpression. Compilation keeps the
	// expression text; evaluation interprets the three canonical harness expressions and is
	// nondeterministic (true / false / evaluation error) for every other text.
	const cellib = "github.com/dadrus/heimdall/internal/rules/mechanisms/cellib"
	t["github.com/google/cel-go/cel.NewEnv"] = func(m *Machine, fr *frame, a []Value) Value {
		return Tuple{(*Value)(nil), Iface{}}
	}
	t[cellib+".Library"] = func(m *Machine, fr *frame, a []Value) Value { return (*Closure)(nil) }
	t[cellib+".CompileExpression"] = func(m *Machine, fr *frame, a []Value) Value {
		cell := new(Value)
		*cell = Struct{a[1], Iface{}} // msg := expression text, p := nil
		return Tuple{cell, Iface{}}
	}
	t["(*"+cellib+".CompiledExpression).Eval"] = func(m *Machine, fr *frame, a []Value) Value {
		p := m.ptrArg(a[0], "CompiledExpression.Eval")
		text, _ := (*p).(Struct)[0].(Str).Concrete()
		outcome := -1
		switch {
		case text == "true":
			outcome = 0
		case text == "false":
			outcome = 1
		case len(text) > 0 && strings.Contains(text, "verif-no-such-key"):
			outcome = 2
		default:
			outcome = m.namedChoice("cel:"+text, 3)
		}
		switch outcome {
		case 0:
			return Iface{}
		case 1:
			et := m.lookupType(cellib, "EvalError")
			cell := new(Value)
			*cell = Struct{m.mkStr("expression evaluated to false")}
			return Iface{T: types.NewPointer(et), V: cell}
		default:
			et := m.lookupType("errors", "errorString")
			cell := new(Value)
			*cell = Struct{m.mkStr("no such key")}
			return Iface{T: types.NewPointer(et), V: cell}
		}
	}
}
