package interp

import (
	"strconv"
	"go/types"
	"regexp"

	"golang.org/x/tools/go/ssa"

	"verif/engine/sym"
)

// nativeTypes are dynamic types of opaque values produced by stubs; method calls on them are
// dispatched to nativeMethod.
var nativeTypes = map[*types.Named]string{}

func newNativeType(name string) *types.Named {
	t := types.NewNamed(types.NewTypeName(0, nil, name, nil), types.NewStruct(nil, nil), nil)
	nativeTypes[t] = name
	return t
}

var (
	joseSignerType  = newNativeType("verif.joseSigner")
	joseBuilderType = newNativeType("verif.jwtBuilder")
)

// joseSigning is the state of a stubbed go-jose signer / JWT builder.
type joseSigning struct {
	alg, key Value
	headers  *MapV
	claims   []Value
}

func (m *Machine) nativeMethod(typeName, method string) Value {
	return Native{func(m *Machine, args []Value) Value {
		if typeName == "verif.opaque" {
			m.unsupported("method %s called on an opaque (havoc'd) interface value %v", method, args[0].(Native).V)
		}
		st := args[0].(Native).V.(*joseSigning)
		const fin = "github.com/dadrus/heimdall/internal/rules/mechanisms/finalizers"
		switch typeName + "." + method {
		case "verif.jwtBuilder.Claims":
			st.claims = append(st.claims, args[1])
			return Iface{T: joseBuilderType, V: Native{st}}
		case "verif.jwtBuilder.Serialize":
			// publish what would be signed to the harness
			set := func(name string, v Value) {
				if g := m.lookupGlobal(fin, name); g != nil {
					m.store(m.global(g), v)
				}
			}
			if len(st.claims) > 0 {
				if itf, ok := st.claims[len(st.claims)-1].(Iface); ok {
					set("VerifSignedClaims", itf.V)
				}
			}
			set("VerifSignedHeaders", st.headers)
			set("VerifSignedAlg", st.alg)
			set("VerifSignedKey", st.key)
			// every serialised token is a distinct text (the signature covers jti / iat and the key)
			m.tokenSeq++
			return Tuple{m.mkStr("header.payload.signature-" + strconv.Itoa(m.tokenSeq)), Iface{}}
		}
		m.unsupported("%s.%s", typeName, method)
		return nil
	}}
}

// Third-party / environment functions replaced by nondeterministic or opaque stubs.
func addStubIntrinsics(t map[string]intrinsic) {
	// body encoders: opaque, non-empty bytes (their output format is outside every claim)
	opaqueBytes := func(tag string) intrinsic {
		return func(m *Machine, fr *frame, a []Value) Value {
			return Tuple{m.bytesToSlice(m.mkStr("⟦" + tag + "⟧").B), Iface{}}
		}
	}
	addJSONIntrinsics(t)
	t["encoding/xml.Marshal"] = opaqueBytes("xml")

	// the reverse proxy is the boundary to the upstream: calling it means "forwarded".
	// The stub applies the Rewrite hook to a copy of the request (so that the outgoing
	// request can be inspected through verifapi marks) and answers 200 like an upstream.
	t["(*net/http/httputil.ReverseProxy).ServeHTTP"] = func(m *Machine, fr *frame, a []Value) Value {
		m.marks["upstream-hit"]++
		rw := a[1].(Iface)
		if _, ok := m.callMethod(fr, rw, "WriteHeader", m.mkInt(200, 64)); !ok {
			panic("ReverseProxy stub: ResponseWriter without WriteHeader")
		}
		return nil
	}

	// go-jose: parsing and cryptographic verification are cut at the token API. The harness
	// publishes the (symbolic) claims and, per key id, whether the signature verifies with that
	// key in package-level variables of the authenticators package.
	const authn = "github.com/dadrus/heimdall/internal/rules/mechanisms/authenticators"
	harnessGlobal := func(m *Machine, name string) Value {
		g := m.lookupGlobal(authn, name)
		if g == nil {
			m.unsupported("go-jose stub: harness variable %s not found", name)
		}
		return m.load(m.global(g))
	}
	joseErr := func(m *Machine, msg string) Value {
		et := m.lookupType("errors", "errorString")
		cell := new(Value)
		*cell = Struct{m.mkStr(msg)}
		return Iface{T: types.NewPointer(et), V: cell}
	}
	t["(*github.com/go-jose/go-jose/v4/jwt.JSONWebToken).Claims"] = func(m *Machine, fr *frame, a []Value) Value {
		keyItf := a[1].(Iface)
		kp, ok := keyItf.V.(*Value)
		if !ok || kp == nil {
			return joseErr(m, "go-jose/go-jose: unsupported key type")
		}
		kid := (*kp).(Struct)[fieldIndex(keyItf.T, "KeyID")]
		valid := harnessGlobal(m, "VerifJWTSigValid").(*MapV)
		if i := m.mapFind(valid, kid); i < 0 || !m.branch(valid.Entries[i].V.(*sym.Term)) {
			return joseErr(m, "go-jose/go-jose: error in cryptographic primitive")
		}
		for _, d := range variadicArgs(a[2]) {
			di := d.(Iface)
			cell := di.V.(*Value)
			pt := di.T.Underlying().(*types.Pointer)
			if _, isMap := pt.Elem().Underlying().(*types.Map); isMap {
				m.store(cell, harnessGlobal(m, "VerifJWTMapClaims"))
			} else {
				m.store(cell, harnessGlobal(m, "VerifJWTClaims"))
			}
		}
		return Iface{}
	}
	// signing: the signer records algorithm, key and extra headers; the builder records the claims and
	// Serialize hands everything to the harness instead of producing a signature
	t["github.com/go-jose/go-jose/v4.NewSigner"] = func(m *Machine, fr *frame, a []Value) Value {
		sk := a[0].(Struct) // SigningKey{Algorithm, Key}
		st := &joseSigning{alg: sk[0], key: sk[1]}
		if op, ok := a[1].(*Value); ok && op != nil {
			so := (*op).(Struct)
			ot := fr.fn.Signature.Params().At(1).Type()
			if hm, ok := so[fieldIndex(ot, "ExtraHeaders")].(*MapV); ok {
				st.headers = hm
			}
		}
		return Tuple{Iface{T: joseSignerType, V: Native{st}}, Iface{}}
	}
	t["github.com/go-jose/go-jose/v4/jwt.Signed"] = func(m *Machine, fr *frame, a []Value) Value {
		return Iface{T: joseBuilderType, V: a[0].(Iface).V}
	}
	t["github.com/google/uuid.New"] = func(m *Machine, fr *frame, a []Value) Value {
		arr := make(Array, 16)
		for i := range arr {
			arr[i] = m.ctx.Const(uint64(0xA0+i), 8)
		}
		return arr
	}
	t["github.com/go-jose/go-jose/v4/jwt.ParseSigned"] = func(m *Machine, fr *frame, a []Value) Value {
		if !m.branch(harnessGlobal(m, "VerifJWTParseOK").(*sym.Term)) {
			return Tuple{(*Value)(nil), joseErr(m, "go-jose/go-jose: compact JWS format must have three parts")}
		}
		tt := m.lookupType("github.com/go-jose/go-jose/v4/jwt", "JSONWebToken")
		hdr := harnessGlobal(m, "VerifJWTHeader")
		// documented contract: parsing fails unless the alg header is one of the given signature algorithms
		if algs, ok := a[1].(Slice); ok {
			ht := m.lookupType("github.com/go-jose/go-jose/v4", "Header")
			if alg, isStr := hdr.(Struct)[fieldIndex(ht, "Algorithm")].(Str); isStr {
				if want, conc := alg.Concrete(); conc {
					found := false
					for _, e := range algs.A {
						if s, ok := e.(Str); ok {
							if cs, c2 := s.Concrete(); c2 && cs == want {
								found = true
							}
						}
					}
					if !found {
						return Tuple{(*Value)(nil), joseErr(m, "go-jose/go-jose: unexpected signature algorithm \""+want+"\"")}
					}
				}
			}
		}
		cell := new(Value)
		*cell = m.zero(tt)
		hi := fieldIndex(tt, "Headers")
		(*cell).(Struct)[hi] = Slice{A: []Value{hdr}}
		return Tuple{cell, Iface{}}
	}
	// RFC 7638 thumbprint of a JWK: a deterministic, injective function of the public key (here: of the
	// value the harness uses as public key — a concrete marker text)
	t["(*github.com/go-jose/go-jose/v4.JSONWebKey).Thumbprint"] = func(m *Machine, fr *frame, a []Value) Value {
		p := m.ptrArg(a[0], "JSONWebKey.Thumbprint")
		jt := m.lookupType("github.com/go-jose/go-jose/v4", "JSONWebKey")
		key := (*p).(Struct)[fieldIndex(jt, "Key")]
		return Tuple{m.bytesToSlice(m.mkStr("thumbprint:" + m.DebugString(key)).B), Iface{}}
	}
	t["(*"+authn+".jwtAuthenticator).fetchJWKS"] = func(m *Machine, fr *frame, a []Value) Value {
		return Tuple{harnessGlobal(m, "VerifJWKS"), harnessGlobal(m, "VerifJWKSErr")}
	}
	t["(*github.com/go-jose/go-jose/v4/jwt.JSONWebToken).UnsafeClaimsWithoutVerification"] = func(m *Machine, fr *frame, a []Value) Value {
		for _, d := range variadicArgs(a[1]) {
			di := d.(Iface)
			cell := di.V.(*Value)
			pt := di.T.Underlying().(*types.Pointer)
			if _, isMap := pt.Elem().Underlying().(*types.Map); isMap {
				m.store(cell, harnessGlobal(m, "VerifJWTMapClaims"))
			} else {
				m.store(cell, harnessGlobal(m, "VerifJWTClaims"))
			}
		}
		return Iface{}
	}

	// environment of the process: taken from the harness variable VerifEnviron of the package under test
	t["os.Environ"] = func(m *Machine, fr *frame, a []Value) Value {
		for f := fr.caller; f != nil; f = f.caller {
			if f.fn.Pkg != nil {
				if g, ok := f.fn.Pkg.Members["VerifEnviron"].(*ssa.Global); ok {
					return m.load(m.global(g))
				}
			}
		}
		return Slice{Nil: true}
	}
	t["os.Stat"] = func(m *Machine, fr *frame, a []Value) Value {
		if hf := m.harnessFunc(fr, "VerifOSStat"); hf != nil {
			return m.callFunction(fr, hf, a, nil)
		}
		return Tuple{Iface{}, Iface{}}
	}
	t["(*os.File).Close"] = func(m *Machine, fr *frame, a []Value) Value { return Iface{} }
	t["(*os.File).Stat"] = func(m *Machine, fr *frame, a []Value) Value {
		if hf := m.harnessFunc(fr, "VerifFileStat"); hf != nil {
			return m.callFunction(fr, hf, a, nil)
		}
		m.unsupported("(*os.File).Stat without a harness function VerifFileStat")
		return nil
	}
	t["os.Open"] = func(m *Machine, fr *frame, a []Value) Value {
		if hf := m.harnessFunc(fr, "VerifOSOpen"); hf != nil {
			return m.callFunction(fr, hf, a, nil)
		}
		m.unsupported("os.Open without a harness function VerifOSOpen")
		return nil
	}
	// regular expressions on concrete input run natively
	t["regexp.MustCompile"] = func(m *Machine, fr *frame, a []Value) Value {
		return Native{regexp.MustCompile(m.goString(a[0], "regexp.MustCompile"))}
	}
	t["regexp.Compile"] = func(m *Machine, fr *frame, a []Value) Value {
		re, err := regexp.Compile(m.goString(a[0], "regexp.Compile"))
		if err != nil {
			return Tuple{(*Value)(nil), joseErr(m, err.Error())}
		}
		return Tuple{Native{re}, Iface{}}
	}
	t["(*regexp.Regexp).MatchString"] = func(m *Machine, fr *frame, a []Value) Value {
		re, ok := a[0].(Native)
		if !ok {
			m.unsupported("regexp value not created through the native shortcut")
		}
		return m.ctx.Bool(re.V.(*regexp.Regexp).MatchString(m.goString(a[1], "Regexp.MatchString")))
	}
	// the final decoding of the merged configuration tree into the target struct (mapstructure) is cut:
	// the merged tree is published to the harness variable VerifMergedConfig
	t["(*github.com/knadh/koanf/v2.Koanf).UnmarshalWithConf"] = func(m *Machine, fr *frame, a []Value) Value {
		raw := m.methodOf(recvType(fr), "Raw")
		tree := m.callFunction(fr, raw, []Value{a[0]}, nil)
		for f := fr.caller; f != nil; f = f.caller {
			if f.fn.Pkg != nil {
				if g, ok := f.fn.Pkg.Members["VerifMergedConfig"].(*ssa.Global); ok {
					m.store(m.global(g), tree)
					break
				}
			}
		}
		return Iface{}
	}

	// koanf's deep copy of a generic tree goes through reflection (copystructure): done on interpreter values
	t["github.com/knadh/koanf/maps.Copy"] = func(m *Machine, fr *frame, a []Value) Value { return m.deepCopyTree(a[0]) }

	// CEL: cel-go is cut below heimdall's cellib.CompiledExpression. Compilation keeps the
	// expression text; evaluation interprets the three canonical harness expressions and is
	// nondeterministic (true / false / evaluation error) for every other text.
	const cellib = "github.com/dadrus/heimdall/internal/rules/mechanisms/cellib"
	t["github.com/google/cel-go/cel.NewEnv"] = func(m *Machine, fr *frame, a []Value) Value {
		return Tuple{(*Value)(nil), Iface{}}
	}
	t[cellib+".Library"] = func(m *Machine, fr *frame, a []Value) Value { return (*Closure)(nil) }
	// cellib.CompileExpression itself is replaced by the harness stand-in verifStub_CompileExpression (package
	// cellib): the compiled program interprets the canonical texts; heimdall's CompiledExpression.Eval runs for real
	_ = cellib
}

func (m *Machine) deepCopyTree(v Value) Value {
	switch x := v.(type) {
	case *MapV:
		if x == nil {
			return x
		}
		c := &MapV{KT: x.KT, VT: x.VT}
		for _, e := range x.Entries {
			c.Entries = append(c.Entries, &mapEntry{K: e.K, V: m.deepCopyTree(e.V)})
		}
		return c
	case Slice:
		if x.Nil {
			return x
		}
		a := make([]Value, len(x.A))
		for i, e := range x.A {
			a[i] = m.deepCopyTree(e)
		}
		return Slice{A: a}
	case Iface:
		return Iface{T: x.T, V: m.deepCopyTree(x.V)}
	}
	return copyVal(v)
}
