package interp

// Third-party / environment functions replaced by nondeterministic or opaque stubs.
func addStubIntrinsics(t map[string]intrinsic) {
	// body encoders: opaque, non-empty bytes (their output format is outside every claim)
	opaqueBytes := func(tag string) intrinsic {
		return func(m *Machine, fr *frame, a []Value) Value {
			return Tuple{m.bytesToSlice(m.mkStr("⟦" + tag + "⟧").B), Iface{}}
		}
	}
	t["github.com/goccy/go-json.Marshal"] = opaqueBytes("json")
	t["encoding/json.Marshal"] = opaqueBytes("json")
	t["encoding/xml.Marshal"] = opaqueBytes("xml")
}
