package interp

import (
	"go/types"

	"golang.org/x/tools/go/ssa"
)

// The network is cut below net/http.Client: Do hands the request to the client's own
// RoundTripper when that is heimdall code (the caching round tripper), and the innermost
// transport (otelhttp over http.DefaultTransport) is replaced by the harness function
// VerifRoundTrip(*http.Request) (*http.Response, error) of a package on the call stack.
// Without such a function the remote end is unreachable (an error is returned).
// harnessFunc finds a harness-provided environment function in a package on the call stack.
func (m *Machine) harnessFunc(fr *frame, name string) *ssa.Function {
	for f := fr; f != nil; f = f.caller {
		if f.fn.Pkg != nil {
			if hf := f.fn.Pkg.Func(name); hf != nil {
				return hf
			}
		}
	}
	return nil
}

func (m *Machine) harnessRoundTrip(fr *frame, req Value) Value {
	if hf := m.harnessFunc(fr, "VerifRoundTrip"); hf != nil {
		return m.callFunction(fr, hf, []Value{req}, nil)
	}
	et := m.lookupType("errors", "errorString")
	cell := new(Value)
	*cell = Struct{m.mkStr("verif: remote end not reachable")}
	return Tuple{(*Value)(nil), Iface{T: types.NewPointer(et), V: cell}}
}

func addHTTPIntrinsics(t map[string]intrinsic) {
	{
		t["(*net/http.Client).Do"] = func(m *Machine, fr *frame, a []Value) Value {
			cp, ok := a[0].(*Value)
			if !ok || cp == nil {
				m.runtimePanic("nil pointer dereference (http.Client)")
			}
			ct := m.lookupType("net/http", "Client")
			cl := m.load(cp).(Struct)
			tr, _ := cl[fieldIndex(ct, "Transport")].(Iface)
			if tr.T != nil {
				if f := m.methodOf(tr.T, "RoundTrip"); f != nil && f.Pkg != nil && !isStubbedPkg(f) {
					return m.call(fr, f, []Value{tr.V, a[1]}, nil)
				}
			}
			return m.harnessRoundTrip(fr, a[1])
		}
		// third-party / library functions behind the caching round tripper: provided by the harness
		viaHarness := func(lib, name string) {
			t[lib] = func(m *Machine, fr *frame, a []Value) Value {
				hf := m.harnessFunc(fr, name)
				if hf == nil {
					m.unsupported("%s needs the harness function %s", lib, name)
				}
				return m.callFunction(fr, hf, a, nil)
			}
		}
		viaHarness("github.com/pquerna/cachecontrol.CachableResponse", "VerifCachableResponse")
		viaHarness("net/http/httputil.DumpResponse", "VerifDumpResponse")
		viaHarness("net/http.ReadResponse", "VerifReadResponse")
		// DER parsing of key store material (C19): the parsed objects are what the harness says they are
		viaHarness("crypto/x509.ParsePKCS8PrivateKey", "VerifParsePKCS8PrivateKey")
		viaHarness("crypto/x509.ParseCertificate", "VerifParseCertificate")
		viaHarness("(*crypto/ecdsa.PublicKey).Equal", "VerifECPublicKeyEqual")
		// gocloud bucket listing (cloud_blob provider): the bucket is what the harness says it is
		viaHarness("(*gocloud.dev/blob.Bucket).List", "VerifBucketList")
		viaHarness("(*gocloud.dev/blob.ListIterator).Next", "VerifBucketListNext")
		t["(*go.opentelemetry.io/contrib/instrumentation/net/http/otelhttp.Transport).RoundTrip"] = func(m *Machine, fr *frame, a []Value) Value {
			return m.harnessRoundTrip(fr, a[1])
		}
	}
}

func isStubbedPkg(f *ssa.Function) bool {
	pp := pkgPathOf(f)
	for _, p := range stubPkgs {
		if pp == p || len(pp) > len(p) && pp[:len(p)] == p {
			return true
		}
	}
	return false
}
