package interp

import (
	"fmt"
	"strconv"
	"strings"

	"verif/engine/sym"
)

// dataPtr is the result of unsafe.SliceData / unsafe.StringData.
type dataPtr struct {
	A []Value     // slice backing (aliased)
	S []*sym.Term // string bytes
}

func sliceTerms(v Value) []*sym.Term {
	switch v := v.(type) {
	case Str:
		return v.B
	case Slice:
		r := make([]*sym.Term, len(v.A))
		for i, e := range v.A {
			r[i] = e.(*sym.Term)
		}
		return r
	}
	panic(fmt.Sprintf("sliceTerms of %T", v))
}

func (m *Machine) bytesToSlice(b []*sym.Term) Slice {
	a := make([]Value, len(b))
	for i, t := range b {
		a[i] = t
	}
	return Slice{A: a}
}

// matchAt builds the formula hay[i:i+len(needle)] == needle.
func (m *Machine) matchAt(hay, needle []*sym.Term, i int) *sym.Term {
	r := m.ctx.True
	for j := range needle {
		e := m.ctx.Eq(hay[i+j], needle[j])
		if e.IsFalse() {
			return e
		}
		r = m.ctx.And(r, e)
	}
	return r
}

// indexOf forks over the first match position.
func (m *Machine) indexOf(hay, needle []*sym.Term) int {
	n := len(needle)
	for i := 0; i+n <= len(hay); i++ {
		if m.branch(m.matchAt(hay, needle, i)) {
			return i
		}
	}
	return -1
}

func (m *Machine) lastIndexOf(hay, needle []*sym.Term) int {
	n := len(needle)
	for i := len(hay) - n; i >= 0; i-- {
		if m.branch(m.matchAt(hay, needle, i)) {
			return i
		}
	}
	return -1
}

func (m *Machine) containsFormula(hay, needle []*sym.Term) *sym.Term {
	r := m.ctx.False
	for i := 0; i+len(needle) <= len(hay); i++ {
		r = m.ctx.Or(r, m.matchAt(hay, needle, i))
		if r.IsTrue() {
			break
		}
	}
	return r
}

func (m *Machine) asciiLower(b *sym.Term) *sym.Term {
	c := m.ctx
	isUp := c.And(c.Ule(c.Const('A', 8), b), c.Ule(b, c.Const('Z', 8)))
	return c.Ite(isUp, c.Add(b, c.Const(32, 8)), b)
}

func (m *Machine) asciiUpper(b *sym.Term) *sym.Term {
	c := m.ctx
	isLo := c.And(c.Ule(c.Const('a', 8), b), c.Ule(b, c.Const('z', 8)))
	return c.Ite(isLo, c.Sub(b, c.Const(32, 8)), b)
}

// requireASCII forces (by branching) every symbolic byte to be < 0x80; returns
// false when a concrete non-ASCII byte is present.
func (m *Machine) requireASCII(bs []*sym.Term, what string) bool {
	for _, b := range bs {
		if b.IsConst() {
			if b.Val >= 0x80 {
				return false
			}
			continue
		}
		if !m.branch(m.ctx.Ult(b, m.ctx.Const(0x80, 8))) {
			m.unsupported("%s on symbolic non-ASCII byte", what)
		}
	}
	return true
}

func addStringIntrinsics(t map[string]intrinsic) {
	idxByte := func(m *Machine, fr *frame, a []Value) Value {
		return m.mkInt(int64(m.indexOf(sliceTerms(a[0]), []*sym.Term{a[1].(*sym.Term)})), 64)
	}
	t["internal/bytealg.IndexByte"] = idxByte
	t["internal/bytealg.IndexByteString"] = idxByte
	t["strings.IndexByte"] = idxByte
	t["bytes.IndexByte"] = idxByte
	lastIdxByte := func(m *Machine, fr *frame, a []Value) Value {
		return m.mkInt(int64(m.lastIndexOf(sliceTerms(a[0]), []*sym.Term{a[1].(*sym.Term)})), 64)
	}
	t["strings.LastIndexByte"] = lastIdxByte
	t["bytes.LastIndexByte"] = lastIdxByte
	t["internal/bytealg.LastIndexByte"] = lastIdxByte
	t["internal/bytealg.LastIndexByteString"] = lastIdxByte
	idx := func(m *Machine, fr *frame, a []Value) Value {
		return m.mkInt(int64(m.indexOf(sliceTerms(a[0]), sliceTerms(a[1]))), 64)
	}
	t["internal/bytealg.Index"] = idx
	t["internal/bytealg.IndexString"] = idx
	t["strings.Index"] = idx
	t["bytes.Index"] = idx
	lastIdx := func(m *Machine, fr *frame, a []Value) Value {
		return m.mkInt(int64(m.lastIndexOf(sliceTerms(a[0]), sliceTerms(a[1]))), 64)
	}
	t["strings.LastIndex"] = lastIdx
	t["bytes.LastIndex"] = lastIdx
	contains := func(m *Machine, fr *frame, a []Value) Value {
		return m.containsFormula(sliceTerms(a[0]), sliceTerms(a[1]))
	}
	t["strings.Contains"] = contains
	t["bytes.Contains"] = contains
	count := func(m *Machine, fr *frame, a []Value) Value {
		hay := sliceTerms(a[0])
		c := a[1].(*sym.Term)
		n := 0
		for _, b := range hay {
			if m.branch(m.ctx.Eq(b, c)) {
				n++
			}
		}
		return m.mkInt(int64(n), 64)
	}
	t["internal/bytealg.Count"] = count
	t["internal/bytealg.CountString"] = count
	t["internal/bytealg.Equal"] = func(m *Machine, fr *frame, a []Value) Value {
		return m.strEq(Str{sliceTerms(a[0])}, Str{sliceTerms(a[1])})
	}
	t["bytes.Equal"] = t["internal/bytealg.Equal"]
	cmp := func(m *Machine, fr *frame, a []Value) Value {
		x, y := Str{sliceTerms(a[0])}, Str{sliceTerms(a[1])}
		c := m.ctx
		lt := m.strLess(x, y, false)
		eq := m.strEq(x, y)
		return c.Ite(lt, c.Const(^uint64(0), 64), c.Ite(eq, c.Const(0, 64), c.Const(1, 64)))
	}
	t["internal/bytealg.Compare"] = cmp
	t["internal/bytealg.CompareString"] = cmp
	t["strings.Compare"] = cmp
	t["bytes.Compare"] = cmp
	t["runtime.cmpstring"] = cmp
	t["internal/bytealg.MakeNoZero"] = func(m *Machine, fr *frame, a []Value) Value {
		n := m.concInt(a[0], "MakeNoZero")
		s := make([]Value, n)
		for i := range s {
			s[i] = m.ctx.Const(0, 8)
		}
		return Slice{A: s}
	}
	t["strings.EqualFold"] = func(m *Machine, fr *frame, a []Value) Value {
		x, y := sliceTerms(a[0]), sliceTerms(a[1])
		xs, xok := Str{x}.Concrete()
		ys, yok := Str{y}.Concrete()
		if xok && yok {
			return m.ctx.Bool(strings.EqualFold(xs, ys))
		}
		if !m.requireASCII(x, "strings.EqualFold") || !m.requireASCII(y, "strings.EqualFold") {
			m.unsupported("strings.EqualFold on mixed symbolic/non-ASCII input")
		}
		if len(x) != len(y) {
			return m.ctx.False
		}
		r := m.ctx.True
		for i := range x {
			r = m.ctx.And(r, m.ctx.Eq(m.asciiLower(x[i]), m.asciiLower(y[i])))
		}
		return r
	}
	t["bytes.EqualFold"] = t["strings.EqualFold"]
	mapASCII := func(name string, native func(string) string, f func(m *Machine, b *sym.Term) *sym.Term) intrinsic {
		return func(m *Machine, fr *frame, a []Value) Value {
			x := sliceTerms(a[0])
			if xs, ok := (Str{x}).Concrete(); ok {
				return m.mkStr(native(xs))
			}
			if !m.requireASCII(x, name) {
				m.unsupported("%s on mixed symbolic/non-ASCII input", name)
			}
			r := make([]*sym.Term, len(x))
			for i, b := range x {
				r[i] = f(m, b)
			}
			return Str{r}
		}
	}
	t["strings.ToLower"] = mapASCII("strings.ToLower", strings.ToLower, (*Machine).asciiLower)
	t["strings.ToUpper"] = mapASCII("strings.ToUpper", strings.ToUpper, (*Machine).asciiUpper)

	// strings.Builder: the real methods append to b.buf; only the unsafe parts are replaced
	t["(*strings.Builder).copyCheck"] = func(m *Machine, fr *frame, a []Value) Value { return nil }
	t["(*strings.Builder).String"] = func(m *Machine, fr *frame, a []Value) Value {
		p := a[0].(*Value)
		if p == nil {
			m.runtimePanic("nil *strings.Builder")
		}
		buf := (*p).(Struct)[1].(Slice)
		return Str{sliceTerms(buf)}
	}
	t["strings.Clone"] = func(m *Machine, fr *frame, a []Value) Value { return a[0] }
	t["unique.Make[string]"] = nil
	delete(t, "unique.Make[string]")

	// heimdall's zero-copy conversions (aliasing not observable in encoded code)
	t["github.com/dadrus/heimdall/internal/x/stringx.ToString"] = func(m *Machine, fr *frame, a []Value) Value {
		return Str{sliceTerms(a[0])}
	}
	t["github.com/dadrus/heimdall/internal/x/stringx.ToBytes"] = func(m *Machine, fr *frame, a []Value) Value {
		return m.bytesToSlice(a[0].(Str).B)
	}

	// strconv on concrete input runs natively; symbolic input runs the real code
	t["strconv.Itoa"] = func(m *Machine, fr *frame, a []Value) Value {
		x := a[0].(*sym.Term)
		if !x.IsConst() {
			x = m.ctx.Const(m.concretize(x, "strconv.Itoa"), 64)
		}
		return m.mkStr(strconv.Itoa(int(x.Int(true))))
	}
	t["strconv.FormatInt"] = func(m *Machine, fr *frame, a []Value) Value {
		x := a[0].(*sym.Term)
		if !x.IsConst() {
			x = m.ctx.Const(m.concretize(x, "strconv.FormatInt"), 64)
		}
		return m.mkStr(strconv.FormatInt(x.Int(true), int(m.concInt(a[1], "base"))))
	}
	t["strconv.FormatUint"] = func(m *Machine, fr *frame, a []Value) Value {
		x := a[0].(*sym.Term)
		if !x.IsConst() {
			x = m.ctx.Const(m.concretize(x, "strconv.FormatUint"), 64)
		}
		return m.mkStr(strconv.FormatUint(x.Val, int(m.concInt(a[1], "base"))))
	}
	t["strconv.Quote"] = func(m *Machine, fr *frame, a []Value) Value {
		s := a[0].(Str)
		if cs, ok := s.Concrete(); ok {
			return m.mkStr(strconv.Quote(cs))
		}
		// opaque but injective rendering: "<bytes>"
		b := append([]*sym.Term{m.ctx.Const('"', 8)}, s.B...)
		b = append(b, m.ctx.Const('"', 8))
		return Str{b}
	}
}
