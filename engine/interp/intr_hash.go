package interp

import (
	"crypto/sha256"
	"fmt"
	"go/types"

	"verif/engine/sym"
)

// SHA-256 model: a digest keeps the transcript of everything written. Concrete
// transcripts are hashed natively (exact). For symbolic transcripts Sum yields 32
// fresh bytes constrained, against every other hash computed on the path, by
//
//	out_i = out_j  <=>  transcript_i = transcript_j
//
// i.e. functional consistency plus the collision-freedom assumption.

type hasher struct {
	transcript []*sym.Term
}

func (m *Machine) hasherOf(v Value) *hasher {
	p := m.ptrArg(v, "sha256 digest")
	if m.hashers == nil {
		m.hashers = map[*Value]*hasher{}
	}
	h, ok := m.hashers[p]
	if !ok {
		h = &hasher{}
		m.hashers[p] = h
	}
	return h
}

func allConst(ts []*sym.Term) bool {
	for _, t := range ts {
		if !t.IsConst() {
			return false
		}
	}
	return true
}

func (m *Machine) sha256Of(in []*sym.Term) []*sym.Term {
	c := m.ctx
	// identical transcript seen before (pointer-equal terms)?
	for _, r := range m.hashLog {
		if len(r.in) == len(in) {
			same := true
			for i := range in {
				if r.in[i] != in[i] {
					same = false
					break
				}
			}
			if same {
				return r.out
			}
		}
	}
	out := make([]*sym.Term, 32)
	if allConst(in) {
		bs := make([]byte, len(in))
		for i, t := range in {
			bs[i] = byte(t.Val)
		}
		sum := sha256.Sum256(bs)
		for i := range out {
			out[i] = c.Const(uint64(sum[i]), 8)
		}
	} else {
		k := len(m.hashLog)
		for i := range out {
			out[i] = m.nondet(fmt.Sprintf("sha256#%d[%d]", k, i), 8)
		}
		// extend the current model so that the consistency constraints below already hold:
		// same transcript (under the model) as an earlier hash -> same output, otherwise a
		// fresh output value. This avoids one solver query per constraint.
		mod := make(sym.Model, len(m.model)+32)
		for kk, vv := range m.model {
			mod[kk] = vv
		}
		var copyFrom []*sym.Term
		for _, r := range m.hashLog {
			if len(r.in) != len(in) {
				continue
			}
			same := true
			for i := range in {
				if sym.Eval(in[i], m.model, m.memo) != sym.Eval(r.in[i], m.model, m.memo) {
					same = false
					break
				}
			}
			if same {
				copyFrom = r.out
				break
			}
		}
		for i := range out {
			if copyFrom != nil {
				mod[out[i].Name] = sym.Eval(copyFrom[i], m.model, m.memo)
			} else {
				// distinct from natively computed digests with overwhelming likelihood and from other fresh ones by construction
				mod[out[i].Name] = uint64((k*37 + i*11 + 0xA5) & 0xff)
				if i < 2 {
					mod[out[i].Name] = uint64((k >> (8 * uint(i))) & 0xff)
				}
			}
		}
		m.model = mod
	}
	eqAll := func(a, b []*sym.Term) *sym.Term {
		r := c.True
		for i := range a {
			r = c.And(r, c.Eq(a[i], b[i]))
			if r.IsFalse() {
				break
			}
		}
		return r
	}
	for _, r := range m.hashLog {
		if allConst(r.in) && allConst(in) {
			continue
		}
		outEq := eqAll(out, r.out)
		if len(r.in) != len(in) {
			m.assume(c.Not(outEq))
		} else {
			inEq := eqAll(in, r.in)
			m.assume(c.Eq(inEq, outEq))
		}
	}
	m.hashLog = append(m.hashLog, hashRec{in: append([]*sym.Term(nil), in...), out: out})
	return out
}

// hexChar maps a nibble (as an 8-bit term < 16) to its lower-case hex digit with a single ite
// (instead of the 16-way ite chain of a table lookup with a symbolic index).
func (m *Machine) hexChar(n *sym.Term) *sym.Term {
	c := m.ctx
	if n.IsConst() {
		return c.Const(uint64("0123456789abcdef"[n.Val&15]), 8)
	}
	return c.Ite(c.Ult(n, c.Const(10, 8)), c.Add(n, c.Const('0', 8)), c.Add(n, c.Const('a'-10, 8)))
}

func (m *Machine) hexEncode(src []*sym.Term) []*sym.Term {
	c := m.ctx
	out := make([]*sym.Term, 0, 2*len(src))
	for _, b := range src {
		hi := c.Bin(sym.OLShr, b, c.Const(4, 8))
		lo := c.Bin(sym.OBAnd, b, c.Const(15, 8))
		out = append(out, m.hexChar(hi), m.hexChar(lo))
	}
	return out
}

func addHashIntrinsics(t map[string]intrinsic) {
	t["encoding/hex.EncodeToString"] = func(m *Machine, fr *frame, a []Value) Value {
		return Str{m.hexEncode(sliceTerms(a[0]))}
	}
	t["encoding/hex.Encode"] = func(m *Machine, fr *frame, a []Value) Value {
		dst := a[0].(Slice)
		enc := m.hexEncode(sliceTerms(a[1]))
		if len(dst.A) < len(enc) {
			m.runtimePanic("index out of range (hex.Encode: dst too small)")
		}
		for i, b := range enc {
			dst.A[i] = b
		}
		return m.mkInt(int64(len(enc)), 64)
	}
	newDigest := func(m *Machine) Value {
		dt := m.lookupType("crypto/sha256", "digest")
		cell := new(Value)
		*cell = m.zero(dt)
		m.hasherOf(cell)
		return Iface{T: types.NewPointer(dt), V: cell}
	}
	t["crypto/sha256.New"] = func(m *Machine, fr *frame, a []Value) Value { return newDigest(m) }
	t["(crypto.Hash).New"] = func(m *Machine, fr *frame, a []Value) Value {
		h := a[0].(*sym.Term)
		if !h.IsConst() || h.Val != 5 { // crypto.SHA256
			m.unsupported("crypto.Hash(%v).New: only SHA-256 is modelled", h)
		}
		return newDigest(m)
	}
	t["(crypto.Hash).Available"] = func(m *Machine, fr *frame, a []Value) Value { return m.ctx.True }
	t["(*crypto/sha256.digest).Write"] = func(m *Machine, fr *frame, a []Value) Value {
		h := m.hasherOf(a[0])
		p := sliceTerms(a[1])
		h.transcript = append(h.transcript, p...)
		return Tuple{m.mkInt(int64(len(p)), 64), Iface{}}
	}
	t["(*crypto/sha256.digest).Reset"] = func(m *Machine, fr *frame, a []Value) Value {
		m.hasherOf(a[0]).transcript = nil
		return nil
	}
	t["(*crypto/sha256.digest).Size"] = func(m *Machine, fr *frame, a []Value) Value { return m.mkInt(32, 64) }
	t["(*crypto/sha256.digest).BlockSize"] = func(m *Machine, fr *frame, a []Value) Value { return m.mkInt(64, 64) }
	t["(*crypto/sha256.digest).Sum"] = func(m *Machine, fr *frame, a []Value) Value {
		h := m.hasherOf(a[0])
		out := m.sha256Of(h.transcript)
		var res []Value
		if in, ok := a[1].(Slice); ok {
			for _, e := range in.A {
				res = append(res, e)
			}
		}
		for _, b := range out {
			res = append(res, b)
		}
		return Slice{A: res}
	}
	t["crypto/sha256.Sum256"] = func(m *Machine, fr *frame, a []Value) Value {
		out := m.sha256Of(sliceTerms(a[0]))
		arr := make(Array, 32)
		for i, b := range out {
			arr[i] = b
		}
		return arr
	}
}
