package interp

import (
	"fmt"
	"go/types"
	"net"
	"strings"

	"verif/engine/sym"
)

// Symbolic peer addresses: verifapi.NondetPeer returns the textual form "<marker>:port" of an
// address whose octets are symbolic, together with the octets. net.SplitHostPort and net.ParseIP
// recognise the marker (the text <-> octets conversion of the net package is not under test);
// on concrete text they run natively.
const peerMarker = "⟦peer-"

func (m *Machine) ipSlice(bs []*sym.Term) Slice {
	a := make([]Value, len(bs))
	for i, b := range bs {
		a[i] = b
	}
	return Slice{A: a}
}

func (m *Machine) concreteIP(ip net.IP) Value {
	if ip == nil {
		return Slice{Nil: true}
	}
	bs := make([]*sym.Term, len(ip))
	for i, b := range ip {
		bs[i] = m.ctx.Const(uint64(b), 8)
	}
	return m.ipSlice(bs)
}

func (m *Machine) netError(msg string) Value {
	et := m.lookupType("errors", "errorString")
	cell := new(Value)
	*cell = Struct{m.mkStr(msg)}
	return Iface{T: types.NewPointer(et), V: cell}
}

func addNetIntrinsics(t map[string]intrinsic) {
	t[apiPkg+".NondetPeer"] = func(m *Machine, fr *frame, a []Value) Value {
		name := m.goString(a[0], "NondetPeer")
		v6 := m.branch(a[1].(*sym.Term))
		n := 4
		if v6 {
			n = 16
		}
		octets := m.nondetBytes(name, n)
		if m.peers == nil {
			m.peers = map[string][]*sym.Term{}
		}
		m.peers[name] = octets
		text := peerMarker + name + "⟧"
		if v6 {
			text = "[" + text + "]"
		}
		return Tuple{m.mkStr(text + ":4711"), m.ipSlice(octets)}
	}
	t["net.SplitHostPort"] = func(m *Machine, fr *frame, a []Value) Value {
		s := a[0].(Str)
		cs, ok := s.Concrete()
		if !ok {
			m.unsupported("net.SplitHostPort on symbolic text")
		}
		host, port, err := net.SplitHostPort(cs)
		if err != nil {
			return Tuple{Str{}, Str{}, m.netError(err.Error())}
		}
		return Tuple{m.mkStr(host), m.mkStr(port), Iface{}}
	}
	t["net.ParseIP"] = func(m *Machine, fr *frame, a []Value) Value {
		s := a[0].(Str)
		cs, ok := s.Concrete()
		if !ok {
			m.unsupported("net.ParseIP on symbolic text")
		}
		if strings.HasPrefix(cs, peerMarker) {
			name := strings.TrimSuffix(strings.TrimPrefix(cs, peerMarker), "⟧")
			octets := m.peers[name]
			if len(octets) == 4 {
				// ParseIP yields the 16 byte form of an IPv4 address
				full := make([]*sym.Term, 0, 16)
				for i := 0; i < 10; i++ {
					full = append(full, m.ctx.Const(0, 8))
				}
				full = append(full, m.ctx.Const(0xff, 8), m.ctx.Const(0xff, 8))
				return m.ipSlice(append(full, octets...))
			}
			return m.ipSlice(append([]*sym.Term(nil), octets...))
		}
		return m.concreteIP(net.ParseIP(cs))
	}
	t["net.ParseCIDR"] = func(m *Machine, fr *frame, a []Value) Value {
		cs := m.goString(a[0], "net.ParseCIDR")
		ip, ipnet, err := net.ParseCIDR(cs)
		if err != nil {
			return Tuple{Slice{Nil: true}, (*Value)(nil), m.netError(err.Error())}
		}
		cell := new(Value)
		*cell = Struct{m.concreteIP(ipnet.IP), m.concreteIP(net.IP(ipnet.Mask))}
		return Tuple{m.concreteIP(ip), cell, Iface{}}
	}
	t["(net.IP).String"] = func(m *Machine, fr *frame, a []Value) Value {
		sl := a[0].(Slice)
		bs := make(net.IP, len(sl.A))
		for i, e := range sl.A {
			t := e.(*sym.Term)
			if !t.IsConst() {
				return m.mkStr(fmt.Sprintf("<symbolic ip %d>", len(sl.A)))
			}
			bs[i] = byte(t.Val)
		}
		return m.mkStr(bs.String())
	}
}
