// Package solver drives one long-lived SMT solver process (z3 -in, z3-new -in or
// cvc5 --incremental) over pipes.
package solver

import (
	"bufio"
	"fmt"
	"io"
	"os/exec"
	"strconv"
	"strings"
	"time"
)

type Result int

const (
	Unsat Result = iota
	Sat
	Unknown
)

func (r Result) String() string { return [...]string{"unsat", "sat", "unknown"}[r] }

type Stats struct {
	Queries  int
	Sat      int
	Unsat    int
	Unknown  int
	Errors   int
	Time     time.Duration
	MaxQuery time.Duration
}

func (s *Stats) Add(o Stats) {
	s.Queries += o.Queries
	s.Sat += o.Sat
	s.Unsat += o.Unsat
	s.Unknown += o.Unknown
	s.Errors += o.Errors
	s.Time += o.Time
	if o.MaxQuery > s.MaxQuery {
		s.MaxQuery = o.MaxQuery
	}
}

type Solver struct {
	Kind    string
	cmd     *exec.Cmd
	in      io.WriteCloser
	out     *bufio.Reader
	Stats   Stats
	LastErr string
	Log     io.Writer // optional transcript
	timeout int
}

// New starts a solver. kind: "z3", "z3-new", "cvc5". timeoutMs is the per-query cap.
func New(kind string, timeoutMs int) (*Solver, error) {
	var cmd *exec.Cmd
	switch kind {
	case "z3", "z3-new":
		cmd = exec.Command(kind, "-in", "-smt2", "-t:"+strconv.Itoa(timeoutMs))
	case "cvc5":
		cmd = exec.Command("cvc5", "--incremental", "--lang=smt2", "--produce-models", "--tlimit-per="+strconv.Itoa(timeoutMs))
	case "cvc5-int":
		// bit-vectors solved as integers (mod 2^k semantics kept): decides multiply/divide-by-constant kernels
		cmd = exec.Command("cvc5", "--incremental", "--lang=smt2", "--produce-models", "--solve-bv-as-int=sum", "--tlimit-per="+strconv.Itoa(timeoutMs))
	default:
		return nil, fmt.Errorf("unknown solver %q", kind)
	}
	in, err := cmd.StdinPipe()
	if err != nil {
		return nil, err
	}
	out, err := cmd.StdoutPipe()
	if err != nil {
		return nil, err
	}
	cmd.Stderr = cmd.Stdout
	if err := cmd.Start(); err != nil {
		return nil, err
	}
	s := &Solver{Kind: kind, cmd: cmd, in: in, out: bufio.NewReaderSize(out, 1<<16), timeout: timeoutMs}
	s.prelude()
	return s, nil
}

func (s *Solver) prelude() {
	if strings.HasPrefix(s.Kind, "cvc5") {
		s.Send("(set-logic QF_BV)\n")
	} else {
		s.Send("(set-option :produce-models true)\n")
	}
}

func (s *Solver) Close() {
	if s.cmd != nil {
		s.in.Close()
		s.cmd.Process.Kill()
		s.cmd.Wait()
		s.cmd = nil
	}
}

// Send writes commands that produce no output.
func (s *Solver) Send(text string) {
	if s.Log != nil {
		io.WriteString(s.Log, text)
	}
	io.WriteString(s.in, text)
}

// Reset clears all assertions and declarations.
func (s *Solver) Reset() {
	s.Send("(reset)\n")
	s.prelude()
}

func (s *Solver) readLine() (string, error) {
	l, err := s.out.ReadString('\n')
	if s.Log != nil && l != "" {
		io.WriteString(s.Log, "; <- "+l)
	}
	return strings.TrimRight(l, "\r\n"), err
}

// Check runs (check-sat) in the current context. Any "(error" line makes the
// answer Unknown (inconclusive).
func (s *Solver) Check() (Result, error) {
	t0 := time.Now()
	s.Send("(check-sat)\n")
	sawErr := false
	for {
		l, err := s.readLine()
		if err != nil {
			return Unknown, fmt.Errorf("solver %s died: %v (last error: %s)", s.Kind, err, s.LastErr)
		}
		var r Result
		switch {
		case l == "sat":
			r = Sat
		case l == "unsat":
			r = Unsat
		case l == "unknown" || l == "timeout":
			r = Unknown
		case strings.Contains(l, "(error"):
			sawErr = true
			s.LastErr = l
			s.Stats.Errors++
			continue
		default:
			continue
		}
		d := time.Since(t0)
		s.Stats.Queries++
		s.Stats.Time += d
		if d > s.Stats.MaxQuery {
			s.Stats.MaxQuery = d
		}
		if sawErr {
			r = Unknown
		}
		switch r {
		case Sat:
			s.Stats.Sat++
		case Unsat:
			s.Stats.Unsat++
		default:
			s.Stats.Unknown++
		}
		return r, nil
	}
}

func (s *Solver) Push() { s.Send("(push 1)\n") }
func (s *Solver) Pop()  { s.Send("(pop 1)\n") }

// GetValues must be called right after a Sat answer. syms are SMT symbols.
func (s *Solver) GetValues(syms []string) (map[string]uint64, error) {
	res := map[string]uint64{}
	const chunk = 200
	for i := 0; i < len(syms); i += chunk {
		j := i + chunk
		if j > len(syms) {
			j = len(syms)
		}
		s.Send("(get-value (" + strings.Join(syms[i:j], " ") + "))\n")
		txt, err := s.readSexp()
		if err != nil {
			return nil, err
		}
		if strings.Contains(txt, "(error") {
			s.LastErr = txt
			s.Stats.Errors++
			return nil, fmt.Errorf("get-value: %s", txt)
		}
		if err := parseValues(txt, res); err != nil {
			return nil, err
		}
	}
	return res, nil
}

// readSexp reads lines until parentheses balance (ignoring those inside |...|).
func (s *Solver) readSexp() (string, error) {
	var sb strings.Builder
	depth := 0
	started := false
	for {
		l, err := s.readLine()
		if err != nil {
			return sb.String(), err
		}
		inBar := false
		for _, ch := range l {
			switch {
			case ch == '|':
				inBar = !inBar
			case inBar:
			case ch == '(':
				depth++
				started = true
			case ch == ')':
				depth--
			}
		}
		sb.WriteString(l)
		sb.WriteByte(' ')
		if started && depth <= 0 {
			return sb.String(), nil
		}
	}
}

func tokenize(s string) []string {
	var toks []string
	i := 0
	for i < len(s) {
		ch := s[i]
		switch {
		case ch == ' ' || ch == '\t' || ch == '\n':
			i++
		case ch == '(' || ch == ')':
			toks = append(toks, string(ch))
			i++
		case ch == '|':
			j := strings.IndexByte(s[i+1:], '|')
			if j < 0 {
				j = len(s) - i - 2
			}
			toks = append(toks, s[i:i+j+2])
			i += j + 2
		default:
			j := i
			for j < len(s) && !strings.ContainsRune(" \t\n()", rune(s[j])) {
				j++
			}
			toks = append(toks, s[i:j])
			i = j
		}
	}
	return toks
}

func parseValues(txt string, res map[string]uint64) error {
	toks := tokenize(txt)
	// ( ( sym val ) ( sym val ) ... )
	i := 0
	if len(toks) == 0 || toks[0] != "(" {
		return fmt.Errorf("get-value: unexpected reply %q", txt)
	}
	i++
	for i < len(toks) && toks[i] == "(" {
		i++
		sym := toks[i]
		i++
		var v uint64
		switch {
		case toks[i] == "(":
			// (_ bvN w)
			if i+3 < len(toks) && toks[i+1] == "_" && strings.HasPrefix(toks[i+2], "bv") {
				n, err := strconv.ParseUint(toks[i+2][2:], 10, 64)
				if err != nil {
					return err
				}
				v = n
				i += 5
			} else {
				return fmt.Errorf("get-value: unexpected value near %q", toks[i:])
			}
		case strings.HasPrefix(toks[i], "#x"):
			n, err := strconv.ParseUint(toks[i][2:], 16, 64)
			if err != nil {
				return err
			}
			v = n
			i++
		case strings.HasPrefix(toks[i], "#b"):
			n, err := strconv.ParseUint(toks[i][2:], 2, 64)
			if err != nil {
				return err
			}
			v = n
			i++
		case toks[i] == "true":
			v = 1
			i++
		case toks[i] == "false":
			v = 0
			i++
		default:
			return fmt.Errorf("get-value: unexpected token %q", toks[i])
		}
		if i >= len(toks) || toks[i] != ")" {
			return fmt.Errorf("get-value: missing ) near %v", toks[i:])
		}
		i++
		res[strings.Trim(sym, "|")] = v
	}
	return nil
}
