package main

import (
	"encoding/json"
	"flag"
	"fmt"
	"os"
	"sort"
	"time"

	"verif/engine/driver"
	"verif/engine/interp"
)

func main() {
	if len(os.Args) < 2 {
		fmt.Fprintln(os.Stderr, "usage: verif run|check|replay ...")
		os.Exit(2)
	}
	switch os.Args[1] {
	case "run":
		os.Exit(cmdRun(os.Args[2:]))
	case "check":
		os.Exit(driver.CmdCheck(os.Args[2:]))
	case "replay":
		os.Exit(driver.CmdReplay(os.Args[2:]))
	default:
		fmt.Fprintln(os.Stderr, "unknown command", os.Args[1])
		os.Exit(2)
	}
}

// run: debugging front end — explore one entry and dump the report.
func cmdRun(args []string) int {
	fs := flag.NewFlagSet("run", flag.ExitOnError)
	workers := fs.Int("workers", 16, "")
	maxPaths := fs.Int("max-paths", 0, "")
	mapAll := fs.Bool("map-order-all", false, "")
	verbose := fs.Bool("v", false, "")
	slv := fs.String("solver", "", "z3|z3-new|cvc5|cvc5-int")
	harness := fs.String("harness", "/verif/harness", "")
	timeout := fs.Duration("timeout", 10*time.Minute, "")
	fs.Parse(args)
	if fs.NArg() < 2 {
		fmt.Fprintln(os.Stderr, "usage: verif run [flags] <pkg path> <Func> [bound=value...]")
		return 2
	}
	bounds := map[string]int{}
	for _, kv := range fs.Args()[2:] {
		var k string
		var v int
		if _, err := fmt.Sscanf(kv, "%[^=]=%d", &k, &v); err == nil {
			bounds[k] = v
		}
	}
	t0 := time.Now()
	p, err := driver.Load(*harness, []string{fs.Arg(0)})
	if err != nil {
		fmt.Fprintln(os.Stderr, err)
		return 2
	}
	fmt.Fprintf(os.Stderr, "loaded in %v\n", time.Since(t0))
	entry, err := p.Entry(fs.Arg(0), fs.Arg(1))
	if err != nil {
		fmt.Fprintln(os.Stderr, err)
		return 2
	}
	rep, err := interp.Explore(p.Prog, entry, interp.Config{SolverKind: *slv, Trace: *verbose, MapOrderAll: *mapAll, Bounds: bounds, KnownOpen: map[string]bool{}},
		interp.ExploreOpts{Workers: *workers, MaxPaths: *maxPaths, Verbose: *verbose, Deadline: time.Now().Add(*timeout)})
	if err != nil {
		fmt.Fprintln(os.Stderr, err)
		return 2
	}
	type kv struct {
		K string
		V int
	}
	top := func(m map[string]int, n int) []kv {
		var r []kv
		for k, v := range m {
			r = append(r, kv{k, v})
		}
		sort.Slice(r, func(i, j int) bool { return r[i].V > r[j].V })
		if len(r) > n {
			r = r[:n]
		}
		return r
	}
	out := map[string]interface{}{
		"entry": rep.Entry, "paths": rep.Paths, "ends": rep.Ends, "decisions": rep.Decisions, "steps": rep.Steps,
		"asserts": rep.Asserts, "asserts_by_solver": rep.AssertsSym, "unknowns": rep.Unknowns, "covers": rep.Covers,
		"unsupported": rep.Unsupported, "bounds": rep.Bounds, "panics": rep.Panics, "solver": rep.Solver, "wall": rep.Wall.String(),
		"violations": rep.Violations, "truncated": rep.Truncated, "nfuncs": len(rep.Funcs), "stubs": top(rep.Stubs, 30),
		"init_problems": rep.InitProblems, "samples": rep.Samples, "fork_sites": top(rep.ForkSites, 25),
	}
	if *verbose {
		out["funcs"] = top(rep.Funcs, 400)
	}
	enc := json.NewEncoder(os.Stdout)
	enc.SetIndent("", " ")
	enc.Encode(out)
	return 0
}
