// Package sym implements hash-consed bit-vector / boolean terms with local
// simplification, concrete evaluation under a model and SMT-LIB2 printing.
package sym

import (
	"fmt"
	"math/bits"
	"sort"
	"strconv"
	"strings"
)

type Op uint8

const (
	OConst Op = iota // bit-vector constant (W>0) or bool constant (W==0, Val 0/1)
	OVar
	ONot // bool
	OAnd // bool, n-ary (2)
	OOr
	OIte // cond, a, b (any sort)
	OEq  // any sort -> bool
	OUlt
	OUle
	OSlt
	OSle
	OAdd
	OSub
	OMul
	OUDiv
	OURem
	OSDiv
	OSRem
	OBAnd
	OBOr
	OBXor
	OShl
	OLShr
	OAShr
	ONeg
	OBNot
	OExtract // Val = hi<<8|lo
	OZext    // to width W
	OSext
	OConcat // hi, lo
)

var opNames = map[Op]string{
	ONot: "not", OAnd: "and", OOr: "or", OIte: "ite", OEq: "=", OUlt: "bvult", OUle: "bvule",
	OSlt: "bvslt", OSle: "bvsle", OAdd: "bvadd", OSub: "bvsub", OMul: "bvmul", OUDiv: "bvudiv",
	OURem: "bvurem", OSDiv: "bvsdiv", OSRem: "bvsrem", OBAnd: "bvand", OBOr: "bvor", OBXor: "bvxor",
	OShl: "bvshl", OLShr: "bvlshr", OAShr: "bvashr", ONeg: "bvneg", OBNot: "bvnot", OConcat: "concat",
}

// Term is an immutable node. W==0 means Bool sort.
type Term struct {
	Op   Op
	W    int
	Val  uint64
	Name string
	Args []*Term
	ID   int
}

func (t *Term) IsConst() bool { return t.Op == OConst }
func (t *Term) IsBool() bool  { return t.W == 0 }
func (t *Term) IsTrue() bool  { return t.Op == OConst && t.W == 0 && t.Val == 1 }
func (t *Term) IsFalse() bool { return t.Op == OConst && t.W == 0 && t.Val == 0 }

// Int returns the constant value sign-extended (signed=true) or zero-extended.
func (t *Term) Int(signed bool) int64 {
	if signed {
		return sext(t.Val, t.W)
	}
	return int64(t.Val)
}

func mask(w int) uint64 {
	if w >= 64 {
		return ^uint64(0)
	}
	return (uint64(1) << uint(w)) - 1
}

// SignExtend interprets the low w bits of v as a signed number.
func SignExtend(v uint64, w int) int64 { return sext(v, w) }

func sext(v uint64, w int) int64 {
	if w >= 64 {
		return int64(v)
	}
	sh := uint(64 - w)
	return int64(v<<sh) >> sh
}

// Ctx is a hash-consing table. Not safe for concurrent use: one per worker.
type Ctx struct {
	tab    map[string]*Term
	nextID int
	small  [9][]*Term // cached constants for widths 8..64 (index w/8), values 0..255
	True   *Term
	False  *Term
	Vars   []*Term // in creation order
	varTab map[string]*Term
	inCur  map[*Term]struct{}
}

func NewCtx() *Ctx {
	c := &Ctx{tab: map[string]*Term{}, varTab: map[string]*Term{}, inCur: map[*Term]struct{}{}}
	c.True = &Term{Op: OConst, W: 0, Val: 1, ID: c.id()}
	c.False = &Term{Op: OConst, W: 0, Val: 0, ID: c.id()}
	return c
}

func (c *Ctx) id() int { c.nextID++; return c.nextID }

func (c *Ctx) Size() int { return len(c.tab) }

// Reset drops all terms (call only between paths).
func (c *Ctx) Reset() {
	c.tab = map[string]*Term{}
	c.varTab = map[string]*Term{}
	c.inCur = map[*Term]struct{}{}
	c.Vars = nil
	for i := range c.small {
		c.small[i] = nil
	}
}

// ResetVars forgets the variables of the previous path (names are re-created identically).
func (c *Ctx) ResetVars() {
	c.Vars = c.Vars[:0]
	c.inCur = map[*Term]struct{}{}
}

func (c *Ctx) Bool(b bool) *Term {
	if b {
		return c.True
	}
	return c.False
}

func (c *Ctx) Const(v uint64, w int) *Term {
	if w == 0 {
		return c.Bool(v != 0)
	}
	v &= mask(w)
	if v < 256 && w%8 == 0 && w <= 64 {
		s := c.small[w/8]
		if s == nil {
			s = make([]*Term, 256)
			c.small[w/8] = s
		}
		if s[v] == nil {
			s[v] = &Term{Op: OConst, W: w, Val: v, ID: c.id()}
		}
		return s[v]
	}
	key := "c" + strconv.Itoa(w) + ":" + strconv.FormatUint(v, 16)
	if t, ok := c.tab[key]; ok {
		return t
	}
	t := &Term{Op: OConst, W: w, Val: v, ID: c.id()}
	c.tab[key] = t
	return t
}

func (c *Ctx) Var(name string, w int) *Term {
	if t, ok := c.varTab[name]; ok {
		if t.W != w {
			panic(fmt.Sprintf("sym: variable %s redeclared with width %d (was %d)", name, w, t.W))
		}
		if _, found := c.inCur[t]; !found {
			c.inCur[t] = struct{}{}
			c.Vars = append(c.Vars, t)
		}
		return t
	}
	t := &Term{Op: OVar, W: w, Name: name, ID: c.id()}
	c.varTab[name] = t
	c.inCur[t] = struct{}{}
	c.Vars = append(c.Vars, t)
	return t
}

func (c *Ctx) mk(op Op, w int, val uint64, args ...*Term) *Term {
	var sb strings.Builder
	sb.WriteByte(byte('A' + op))
	sb.WriteString(strconv.Itoa(w))
	if val != 0 {
		sb.WriteByte('#')
		sb.WriteString(strconv.FormatUint(val, 16))
	}
	for _, a := range args {
		sb.WriteByte(',')
		sb.WriteString(strconv.Itoa(a.ID))
	}
	key := sb.String()
	if t, ok := c.tab[key]; ok {
		return t
	}
	t := &Term{Op: op, W: w, Val: val, Args: append([]*Term(nil), args...), ID: c.id()}
	c.tab[key] = t
	return t
}

// ---- boolean constructors ----

func (c *Ctx) Not(a *Term) *Term {
	if a.W != 0 {
		panic("sym: Not on non-bool")
	}
	if a.IsConst() {
		return c.Bool(a.Val == 0)
	}
	if a.Op == ONot {
		return a.Args[0]
	}
	return c.mk(ONot, 0, 0, a)
}

func (c *Ctx) And(a, b *Term) *Term {
	if a.IsFalse() || b.IsFalse() {
		return c.False
	}
	if a.IsTrue() {
		return b
	}
	if b.IsTrue() {
		return a
	}
	if a == b {
		return a
	}
	if (a.Op == ONot && a.Args[0] == b) || (b.Op == ONot && b.Args[0] == a) {
		return c.False
	}
	return c.mk(OAnd, 0, 0, a, b)
}

func (c *Ctx) Or(a, b *Term) *Term {
	if a.IsTrue() || b.IsTrue() {
		return c.True
	}
	if a.IsFalse() {
		return b
	}
	if b.IsFalse() {
		return a
	}
	if a == b {
		return a
	}
	if (a.Op == ONot && a.Args[0] == b) || (b.Op == ONot && b.Args[0] == a) {
		return c.True
	}
	return c.mk(OOr, 0, 0, a, b)
}

func (c *Ctx) Implies(a, b *Term) *Term { return c.Or(c.Not(a), b) }

func (c *Ctx) Ite(cond, a, b *Term) *Term {
	if cond.IsTrue() {
		return a
	}
	if cond.IsFalse() {
		return b
	}
	if a == b {
		return a
	}
	if a.W != b.W {
		panic(fmt.Sprintf("sym: Ite width mismatch %d vs %d", a.W, b.W))
	}
	if a.W == 0 {
		if a.IsTrue() && b.IsFalse() {
			return cond
		}
		if a.IsFalse() && b.IsTrue() {
			return c.Not(cond)
		}
		if a.IsTrue() {
			return c.Or(cond, b)
		}
		if a.IsFalse() {
			return c.And(c.Not(cond), b)
		}
		if b.IsTrue() {
			return c.Or(c.Not(cond), a)
		}
		if b.IsFalse() {
			return c.And(cond, a)
		}
	}
	if cond.Op == ONot {
		return c.mk(OIte, a.W, 0, cond.Args[0], b, a)
	}
	return c.mk(OIte, a.W, 0, cond, a, b)
}

func (c *Ctx) Eq(a, b *Term) *Term {
	if a.W != b.W {
		panic(fmt.Sprintf("sym: Eq width mismatch %d vs %d", a.W, b.W))
	}
	if a == b {
		return c.True
	}
	if a.IsConst() && b.IsConst() {
		return c.Bool(a.Val == b.Val)
	}
	if a.W == 0 {
		if a.IsConst() {
			a, b = b, a
		}
		if b.IsTrue() {
			return a
		}
		if b.IsFalse() {
			return c.Not(a)
		}
	}
	// eq(ite(c,k1,k2), k) with constants: fold
	if b.IsConst() && a.Op == OIte {
		return c.eqIteConst(a, b)
	}
	if a.IsConst() && b.Op == OIte {
		return c.eqIteConst(b, a)
	}
	// zext(x) == const
	if b.IsConst() && a.Op == OZext {
		x := a.Args[0]
		if b.Val > mask(x.W) {
			return c.False
		}
		return c.Eq(x, c.Const(b.Val, x.W))
	}
	if a.IsConst() && b.Op == OZext {
		return c.Eq(b, a)
	}
	if a.ID > b.ID {
		a, b = b, a
	}
	return c.mk(OEq, 0, 0, a, b)
}

func (c *Ctx) eqIteConst(ite, k *Term) *Term {
	x, y := ite.Args[1], ite.Args[2]
	if (x.IsConst() || x.Op == OIte) && (y.IsConst() || y.Op == OIte) && iteDepth(ite) <= 64 {
		return c.Ite(ite.Args[0], c.Eq(x, k), c.Eq(y, k))
	}
	a, b := ite, k
	if a.ID > b.ID {
		a, b = b, a
	}
	return c.mk(OEq, 0, 0, a, b)
}

func iteDepth(t *Term) int {
	n := 0
	for t.Op == OIte && n < 1000 {
		n++
		if t.Args[2].Op == OIte {
			t = t.Args[2]
		} else {
			t = t.Args[1]
		}
	}
	return n
}

func (c *Ctx) Ne(a, b *Term) *Term { return c.Not(c.Eq(a, b)) }

// ---- comparisons ----

func (c *Ctx) cmp(op Op, a, b *Term) *Term {
	if a.W != b.W {
		panic(fmt.Sprintf("sym: cmp width mismatch %d vs %d", a.W, b.W))
	}
	if a.IsConst() && b.IsConst() {
		return c.Bool(evalCmp(op, a.Val, b.Val, a.W))
	}
	if a == b {
		return c.Bool(op == OUle || op == OSle)
	}
	// zext(x) <u const where const > max(x)
	if op == OUlt || op == OUle {
		if b.IsConst() && a.Op == OZext && b.Val > mask(a.Args[0].W) {
			return c.True
		}
		if b.IsConst() && op == OUlt && b.Val == 0 {
			return c.False
		}
		if a.IsConst() && op == OUle && a.Val == 0 {
			return c.True
		}
	}
	return c.mk(op, 0, 0, a, b)
}

func evalCmp(op Op, a, b uint64, w int) bool {
	switch op {
	case OUlt:
		return a < b
	case OUle:
		return a <= b
	case OSlt:
		return sext(a, w) < sext(b, w)
	case OSle:
		return sext(a, w) <= sext(b, w)
	}
	panic("evalCmp")
}

func (c *Ctx) Ult(a, b *Term) *Term { return c.cmp(OUlt, a, b) }
func (c *Ctx) Ule(a, b *Term) *Term { return c.cmp(OUle, a, b) }
func (c *Ctx) Slt(a, b *Term) *Term { return c.cmp(OSlt, a, b) }
func (c *Ctx) Sle(a, b *Term) *Term { return c.cmp(OSle, a, b) }

// Lt / Le choose by signedness.
func (c *Ctx) Lt(a, b *Term, signed bool) *Term {
	if signed {
		return c.Slt(a, b)
	}
	return c.Ult(a, b)
}
func (c *Ctx) Le(a, b *Term, signed bool) *Term {
	if signed {
		return c.Sle(a, b)
	}
	return c.Ule(a, b)
}

// ---- arithmetic ----

func evalBin(op Op, a, b uint64, w int) (uint64, bool) {
	m := mask(w)
	switch op {
	case OAdd:
		return (a + b) & m, true
	case OSub:
		return (a - b) & m, true
	case OMul:
		return (a * b) & m, true
	case OUDiv:
		if b == 0 {
			return m, true // SMT-LIB semantics
		}
		return (a / b) & m, true
	case OURem:
		if b == 0 {
			return a, true
		}
		return (a % b) & m, true
	case OSDiv:
		if b == 0 {
			if sext(a, w) < 0 {
				return 1, true
			}
			return m, true
		}
		sa, sb := sext(a, w), sext(b, w)
		if sb == -1 {
			return uint64(-sa) & m, true
		}
		return uint64(sa/sb) & m, true
	case OSRem:
		if b == 0 {
			return a, true
		}
		sa, sb := sext(a, w), sext(b, w)
		if sb == -1 {
			return 0, true
		}
		return uint64(sa%sb) & m, true
	case OBAnd:
		return a & b, true
	case OBOr:
		return a | b, true
	case OBXor:
		return a ^ b, true
	case OShl:
		if b >= uint64(w) {
			return 0, true
		}
		return (a << b) & m, true
	case OLShr:
		if b >= uint64(w) {
			return 0, true
		}
		return (a >> b) & m, true
	case OAShr:
		sa := sext(a, w)
		if b >= uint64(w) {
			if sa < 0 {
				return m, true
			}
			return 0, true
		}
		return uint64(sa>>b) & m, true
	}
	return 0, false
}

func (c *Ctx) Bin(op Op, a, b *Term) *Term {
	if a.W != b.W || a.W == 0 {
		panic(fmt.Sprintf("sym: Bin %v width mismatch %d vs %d", op, a.W, b.W))
	}
	w := a.W
	if a.IsConst() && b.IsConst() {
		v, _ := evalBin(op, a.Val, b.Val, w)
		return c.Const(v, w)
	}
	switch op {
	case OAdd:
		if a.IsConst() && a.Val == 0 {
			return b
		}
		if b.IsConst() && b.Val == 0 {
			return a
		}
		return c.linear(a, b, false)
	case OSub:
		if b.IsConst() && b.Val == 0 {
			return a
		}
		if a == b {
			return c.Const(0, w)
		}
		return c.linear(a, b, true)
	case OMul:
		if a.IsConst() {
			a, b = b, a
		}
		if b.IsConst() {
			if b.Val == 0 {
				return b
			}
			if b.Val == 1 {
				return a
			}
		}
	case OUDiv, OSDiv:
		if b.IsConst() && b.Val == 1 {
			return a
		}
	case OBAnd:
		if a.IsConst() {
			a, b = b, a
		}
		if b.IsConst() {
			if b.Val == 0 {
				return b
			}
			if b.Val == mask(w) {
				return a
			}
		}
		if a == b {
			return a
		}
	case OBOr, OBXor:
		if a.IsConst() {
			a, b = b, a
		}
		if b.IsConst() && b.Val == 0 {
			return a
		}
		if a == b {
			if op == OBOr {
				return a
			}
			return c.Const(0, w)
		}
	case OShl, OLShr, OAShr:
		if b.IsConst() && b.Val == 0 {
			return a
		}
	}
	return c.mk(op, w, 0, a, b)
}

// linear builds a±b in a canonical linear normal form: sum of atom*coef (atoms
// ordered by id) plus a constant, so that common atoms cancel syntactically.
func (c *Ctx) linear(a, b *Term, sub bool) *Term {
	w := a.W
	coefs := map[*Term]uint64{}
	var order []*Term
	var k uint64
	var walk func(t *Term, f uint64)
	walk = func(t *Term, f uint64) {
		switch {
		case t.Op == OConst:
			k += f * t.Val
		case t.Op == OAdd:
			walk(t.Args[0], f)
			walk(t.Args[1], f)
		case t.Op == OSub:
			walk(t.Args[0], f)
			walk(t.Args[1], -f)
		case t.Op == ONeg:
			walk(t.Args[0], -f)
		case t.Op == OMul && t.Args[1].IsConst() && t.Args[0].Op != OAdd && t.Args[0].Op != OSub:
			walk(t.Args[0], f*t.Args[1].Val)
		default:
			if _, ok := coefs[t]; !ok {
				order = append(order, t)
			}
			coefs[t] += f
		}
	}
	walk(a, 1)
	if sub {
		walk(b, ^uint64(0))
	} else {
		walk(b, 1)
	}
	m := mask(w)
	k &= m
	sort.Slice(order, func(i, j int) bool { return order[i].ID < order[j].ID })
	var acc *Term
	var negs []*Term
	for _, at := range order {
		cf := coefs[at] & m
		if cf == 0 {
			continue
		}
		if cf == m { // -1
			negs = append(negs, at)
			continue
		}
		term := at
		if cf != 1 {
			term = c.mk(OMul, w, 0, at, c.Const(cf, w))
		}
		if acc == nil {
			acc = term
		} else {
			acc = c.mk(OAdd, w, 0, acc, term)
		}
	}
	for _, at := range negs {
		if acc == nil {
			acc = c.mk(ONeg, w, 0, at)
		} else {
			acc = c.mk(OSub, w, 0, acc, at)
		}
	}
	if acc == nil {
		return c.Const(k, w)
	}
	if k != 0 {
		acc = c.mk(OAdd, w, 0, acc, c.Const(k, w))
	}
	return acc
}

func (c *Ctx) Add(a, b *Term) *Term { return c.Bin(OAdd, a, b) }
func (c *Ctx) Sub(a, b *Term) *Term { return c.Bin(OSub, a, b) }
func (c *Ctx) Mul(a, b *Term) *Term { return c.Bin(OMul, a, b) }

func (c *Ctx) Neg(a *Term) *Term {
	if a.IsConst() {
		return c.Const(-a.Val, a.W)
	}
	return c.mk(ONeg, a.W, 0, a)
}

func (c *Ctx) BNot(a *Term) *Term {
	if a.IsConst() {
		return c.Const(^a.Val, a.W)
	}
	if a.Op == OBNot {
		return a.Args[0]
	}
	return c.mk(OBNot, a.W, 0, a)
}

func (c *Ctx) Extract(a *Term, hi, lo int) *Term {
	w := hi - lo + 1
	if lo == 0 && w == a.W {
		return a
	}
	if a.IsConst() {
		return c.Const(a.Val>>uint(lo), w)
	}
	if a.Op == OZext || a.Op == OSext {
		x := a.Args[0]
		if hi < x.W {
			return c.Extract(x, hi, lo)
		}
		if a.Op == OZext && lo >= x.W {
			return c.Const(0, w)
		}
	}
	if a.Op == OConcat {
		l := a.Args[1]
		if hi < l.W {
			return c.Extract(l, hi, lo)
		}
		if lo >= l.W {
			return c.Extract(a.Args[0], hi-l.W, lo-l.W)
		}
	}
	return c.mk(OExtract, w, uint64(hi)<<8|uint64(lo), a)
}

func (c *Ctx) Zext(a *Term, w int) *Term {
	if w == a.W {
		return a
	}
	if w < a.W {
		return c.Extract(a, w-1, 0)
	}
	if a.IsConst() {
		return c.Const(a.Val, w)
	}
	if a.Op == OZext {
		return c.Zext(a.Args[0], w)
	}
	return c.mk(OZext, w, 0, a)
}

func (c *Ctx) Sext(a *Term, w int) *Term {
	if w == a.W {
		return a
	}
	if w < a.W {
		return c.Extract(a, w-1, 0)
	}
	if a.IsConst() {
		return c.Const(uint64(sext(a.Val, a.W)), w)
	}
	if a.Op == OZext {
		return c.Zext(a.Args[0], w)
	}
	return c.mk(OSext, w, 0, a)
}

// Resize converts to width w, sign- or zero-extending according to the source signedness.
func (c *Ctx) Resize(a *Term, w int, srcSigned bool) *Term {
	if srcSigned {
		return c.Sext(a, w)
	}
	return c.Zext(a, w)
}

func (c *Ctx) Concat(hi, lo *Term) *Term {
	if hi.IsConst() && lo.IsConst() && hi.W+lo.W <= 64 {
		return c.Const(hi.Val<<uint(lo.W)|lo.Val, hi.W+lo.W)
	}
	return c.mk(OConcat, hi.W+lo.W, 0, hi, lo)
}

// AndN / OrN fold a list.
func (c *Ctx) AndN(ts ...*Term) *Term {
	r := c.True
	for _, t := range ts {
		r = c.And(r, t)
	}
	return r
}
func (c *Ctx) OrN(ts ...*Term) *Term {
	r := c.False
	for _, t := range ts {
		r = c.Or(r, t)
	}
	return r
}

// ---- evaluation under a model ----

type Model map[string]uint64

// Eval computes the concrete value of t under m (missing variables are 0).
func Eval(t *Term, m Model, memo map[*Term]uint64) uint64 {
	if t.Op == OConst {
		return t.Val
	}
	if v, ok := memo[t]; ok {
		return v
	}
	var r uint64
	switch t.Op {
	case OVar:
		r = m[t.Name] & maskB(t.W)
	case ONot:
		r = 1 - Eval(t.Args[0], m, memo)
	case OAnd:
		if Eval(t.Args[0], m, memo) == 0 {
			r = 0
		} else {
			r = Eval(t.Args[1], m, memo)
		}
	case OOr:
		if Eval(t.Args[0], m, memo) == 1 {
			r = 1
		} else {
			r = Eval(t.Args[1], m, memo)
		}
	case OIte:
		if Eval(t.Args[0], m, memo) == 1 {
			r = Eval(t.Args[1], m, memo)
		} else {
			r = Eval(t.Args[2], m, memo)
		}
	case OEq:
		if Eval(t.Args[0], m, memo) == Eval(t.Args[1], m, memo) {
			r = 1
		}
	case OUlt, OUle, OSlt, OSle:
		if evalCmp(t.Op, Eval(t.Args[0], m, memo), Eval(t.Args[1], m, memo), t.Args[0].W) {
			r = 1
		}
	case ONeg:
		r = (-Eval(t.Args[0], m, memo)) & mask(t.W)
	case OBNot:
		r = (^Eval(t.Args[0], m, memo)) & mask(t.W)
	case OExtract:
		lo := int(t.Val & 0xff)
		r = (Eval(t.Args[0], m, memo) >> uint(lo)) & mask(t.W)
	case OZext:
		r = Eval(t.Args[0], m, memo)
	case OSext:
		r = uint64(sext(Eval(t.Args[0], m, memo), t.Args[0].W)) & mask(t.W)
	case OConcat:
		r = (Eval(t.Args[0], m, memo)<<uint(t.Args[1].W) | Eval(t.Args[1], m, memo)) & mask(t.W)
	default:
		v, ok := evalBin(t.Op, Eval(t.Args[0], m, memo), Eval(t.Args[1], m, memo), t.W)
		if !ok {
			panic(fmt.Sprintf("sym: Eval: unknown op %d", t.Op))
		}
		r = v
	}
	memo[t] = r
	return r
}

func maskB(w int) uint64 {
	if w == 0 {
		return 1
	}
	return mask(w)
}

// ---- SMT-LIB printing ----

func SortOf(t *Term) string {
	if t.W == 0 {
		return "Bool"
	}
	return "(_ BitVec " + strconv.Itoa(t.W) + ")"
}

func constLit(v uint64, w int) string {
	if w == 0 {
		if v != 0 {
			return "true"
		}
		return "false"
	}
	if w%4 == 0 {
		return fmt.Sprintf("#x%0*x", w/4, v)
	}
	return fmt.Sprintf("#b%0*b", w, v)
}

// VarSym is the SMT symbol of a variable (prefixed, quoted).
func VarSym(name string) string {
	var sb strings.Builder
	sb.WriteString("|v_")
	for _, r := range name {
		if r == '|' || r == '\\' {
			sb.WriteByte('_')
		} else {
			sb.WriteRune(r)
		}
	}
	sb.WriteByte('|')
	return sb.String()
}

// Printer emits definitions for DAG nodes once per solver session.
type Printer struct {
	sent map[*Term]string // term -> symbol
	Out  strings.Builder
}

func NewPrinter() *Printer { return &Printer{sent: map[*Term]string{}} }

func (p *Printer) Reset() { p.sent = map[*Term]string{}; p.Out.Reset() }

// Ref returns the symbol (or literal) standing for t, appending needed
// declarations/definitions to p.Out.
func (p *Printer) Ref(t *Term) string {
	if t.Op == OConst {
		return constLit(t.Val, t.W)
	}
	if s, ok := p.sent[t]; ok {
		return s
	}
	// iterative post-order to avoid deep recursion
	type frame struct {
		t *Term
		i int
	}
	stack := []frame{{t, 0}}
	for len(stack) > 0 {
		f := &stack[len(stack)-1]
		if f.t.Op == OConst {
			stack = stack[:len(stack)-1]
			continue
		}
		if _, ok := p.sent[f.t]; ok {
			stack = stack[:len(stack)-1]
			continue
		}
		if f.i < len(f.t.Args) {
			a := f.t.Args[f.i]
			f.i++
			if a.Op != OConst {
				if _, ok := p.sent[a]; !ok {
					stack = append(stack, frame{a, 0})
				}
			}
			continue
		}
		p.emit(f.t)
		stack = stack[:len(stack)-1]
	}
	return p.sent[t]
}

// Has reports whether t was already emitted in this session.
func (p *Printer) Has(t *Term) bool { _, ok := p.sent[t]; return ok }

func (p *Printer) arg(t *Term) string {
	if t.Op == OConst {
		return constLit(t.Val, t.W)
	}
	return p.sent[t]
}

func (p *Printer) emit(t *Term) {
	if t.Op == OVar {
		s := VarSym(t.Name)
		p.Out.WriteString("(declare-const " + s + " " + SortOf(t) + ")\n")
		p.sent[t] = s
		return
	}
	sym := "t" + strconv.Itoa(t.ID)
	var body string
	switch t.Op {
	case OExtract:
		hi, lo := int(t.Val>>8), int(t.Val&0xff)
		body = fmt.Sprintf("((_ extract %d %d) %s)", hi, lo, p.arg(t.Args[0]))
	case OZext:
		body = fmt.Sprintf("((_ zero_extend %d) %s)", t.W-t.Args[0].W, p.arg(t.Args[0]))
	case OSext:
		body = fmt.Sprintf("((_ sign_extend %d) %s)", t.W-t.Args[0].W, p.arg(t.Args[0]))
	default:
		name, ok := opNames[t.Op]
		if !ok {
			panic(fmt.Sprintf("sym: print: unknown op %d", t.Op))
		}
		var sb strings.Builder
		sb.WriteByte('(')
		sb.WriteString(name)
		for _, a := range t.Args {
			sb.WriteByte(' ')
			sb.WriteString(p.arg(a))
		}
		sb.WriteByte(')')
		body = sb.String()
	}
	p.Out.WriteString("(define-fun " + sym + " () " + SortOf(t) + " " + body + ")\n")
	p.sent[t] = sym
}

// Flush returns and clears the pending text.
func (p *Printer) Flush() string {
	s := p.Out.String()
	p.Out.Reset()
	return s
}

// String renders a term as a nested expression (debugging; may be large).
func (t *Term) String() string {
	switch t.Op {
	case OConst:
		if t.W == 0 {
			return constLit(t.Val, 0)
		}
		return strconv.FormatUint(t.Val, 10) + ":" + strconv.Itoa(t.W)
	case OVar:
		return t.Name
	case OExtract:
		return fmt.Sprintf("(extract %d %d %s)", t.Val>>8, t.Val&0xff, t.Args[0])
	case OZext:
		return fmt.Sprintf("(zext%d %s)", t.W, t.Args[0])
	case OSext:
		return fmt.Sprintf("(sext%d %s)", t.W, t.Args[0])
	}
	var sb strings.Builder
	sb.WriteByte('(')
	sb.WriteString(opNames[t.Op])
	for _, a := range t.Args {
		sb.WriteByte(' ')
		if sb.Len() > 400 {
			sb.WriteString("...")
			break
		}
		sb.WriteString(a.String())
	}
	sb.WriteByte(')')
	return sb.String()
}

// Popcount helper kept for intrinsics.
func Popcount(v uint64) int { return bits.OnesCount64(v) }
