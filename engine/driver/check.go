package driver

func CmdCheck(args []string) int  { return 2 }
func CmdReplay(args []string) int { return 2 }
