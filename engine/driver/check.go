package driver

import (
	"encoding/json"
	"flag"
	"fmt"
	"os"
	"os/exec"
	"path/filepath"
	"regexp"
	"sort"
	"strconv"
	"strings"
	"time"

	"verif/engine/interp"
)

const VerifDir = "/verif"

type EntrySpec struct {
	Pkg           string         `json:"pkg"`
	Func          string         `json:"func"`
	Covers        []string       `json:"covers"`
	MapOrderAll   bool           `json:"map_order_all"`
	MapRotations  bool           `json:"map_order_rotations"`
	MapOrderSeeds int            `json:"map_order_seeds"`
	SymbolicNanos bool           `json:"symbolic_nanos"`
	Quick         map[string]int `json:"quick"`
	Thorough      map[string]int `json:"thorough"`
	ThoroughOnly  bool           `json:"thorough_only"`
	MaxPaths      int            `json:"max_paths"`
	MaxSteps      int            `json:"max_steps"`
	MaxSeconds    int            `json:"max_seconds"`
	Solver        string         `json:"solver"`
	CallDepthCrash int           `json:"call_depth_crash"` // nesting deeper than this counts as the target's stack overflow
	SyncFiles     []string       `json:"sync_files"` // files under test whose lock acquisitions are scheduling points (thread layer)
}

type CheckSpec struct {
	Title       string      `json:"title"`
	Entries     []EntrySpec `json:"entries"`
	Assumptions []string    `json:"assumptions"`
	Bounds      string      `json:"bounds_note"`
	Outside     []string    `json:"outside_claim"`
}

type KnownFinding struct {
	ID       string `json:"id"`
	Property string `json:"property"`
	Status   string `json:"status"` // "open" | "fixed"
	What     string `json:"what"`
	Region   string `json:"region,omitempty"`
	Commit   string `json:"commit,omitempty"`
}

type ReplayFile struct {
	Property  string            `json:"property"`
	Pkg       string            `json:"pkg"`
	Func      string            `json:"func"`
	Label     string            `json:"label"`
	Nondet    map[string]uint64 `json:"nondet"`
	Bounds    map[string]int    `json:"bounds"`
	Decisions []interp.Decision `json:"decisions,omitempty"`
	Observed  []string          `json:"observed,omitempty"`
	Meta      map[string]string `json:"meta,omitempty"`
	SyncFiles []string          `json:"sync_files,omitempty"`
	KnownOpen []string          `json:"known_open,omitempty"`
}

func loadJSON(path string, v interface{}) error {
	data, err := os.ReadFile(path)
	if err != nil {
		return err
	}
	return json.Unmarshal(data, v)
}

func CmdCheck(args []string) int {
	fs := flag.NewFlagSet("check", flag.ExitOnError)
	tier := fs.String("tier", "", "quick|thorough")
	workers := fs.Int("workers", 16, "")
	verbose := fs.Bool("v", false, "")
	noReplay := fs.Bool("no-replay", false, "skip native replay of counterexamples (debugging)")
	only := fs.String("only", "", "run only this entry function (debugging)")
	// flags may come before or after the property id
	var positional []string
	for rest := args; len(rest) > 0; {
		fs.Parse(rest)
		if fs.NArg() == 0 {
			break
		}
		positional = append(positional, fs.Arg(0))
		rest = fs.Args()[1:]
	}
	if len(positional) < 1 {
		fmt.Fprintln(os.Stderr, "usage: verif check [--tier quick|thorough] <property id>")
		return 2
	}
	id := positional[0]
	if *tier == "" {
		*tier = os.Getenv("VERIF_TIER")
	}
	if *tier == "" {
		*tier = "quick"
	}
	seed, _ := strconv.Atoi(os.Getenv("VERIF_SEED"))
	t0 := time.Now()

	var specs map[string]CheckSpec
	if err := loadJSON(filepath.Join(VerifDir, "checks.json"), &specs); err != nil {
		fmt.Fprintln(os.Stderr, "checks.json:", err)
		return 2
	}
	spec, ok := specs[id]
	if !ok {
		fmt.Fprintln(os.Stderr, "no check for", id)
		return 2
	}
	var known []KnownFinding
	loadJSON(filepath.Join(VerifDir, "known_findings.json"), &known)
	knownOpen := map[string]bool{}
	knownByID := map[string]KnownFinding{}
	for _, k := range known {
		knownByID[k.ID] = k
		if k.Status == "open" && k.Property == id {
			knownOpen[k.ID] = true
		}
	}

	pkgSet := map[string]bool{}
	var pkgs []string
	for _, e := range spec.Entries {
		if !pkgSet[e.Pkg] {
			pkgSet[e.Pkg] = true
			pkgs = append(pkgs, e.Pkg)
		}
	}
	ev := newEvidence(id, *tier, seed)
	ev.Assumptions = spec.Assumptions
	finish := func(code int, problems []string) int {
		ev.WallS = time.Since(t0).Seconds()
		ev.Coverage["inconclusive_reasons"] = problems
		ev.Coverage["verdict"] = map[int]string{0: "holds within bounds", 1: "violation", 2: "inconclusive"}[code]
		writeEvidence(id, ev)
		return code
	}
	prog, err := Load(filepath.Join(VerifDir, "harness"), pkgs)
	if err != nil {
		fmt.Fprintln(os.Stderr, err)
		ev.Coverage["explanation"] = "load failed: " + err.Error()
		return finish(2, []string{"load failed"})
	}
	loadTime := time.Since(t0)

	var problems []string
	violations := 0
	knownPrinted := map[string]bool{}
	totalPaths, totalDecisions, replays, replaysOK := 0, 0, 0, 0
	var entriesEv []map[string]interface{}
	funcsAll := map[string]int{}
	stubsAll := map[string]int{}
	var samples []interface{}
	distinct := 0
	var solverQueries, solverSat, solverUnsat, solverUnknown int
	var solverTime time.Duration
	assertsTotal, assertsSym := 0, 0
	selfAgree, selfTotal := 0, 0

	for _, e := range spec.Entries {
		if *only != "" && e.Func != *only {
			continue
		}
		if e.ThoroughOnly && *tier != "thorough" {
			continue
		}
		bounds := e.Quick
		if *tier == "thorough" && e.Thorough != nil {
			bounds = map[string]int{}
			for k, v := range e.Quick {
				bounds[k] = v
			}
			for k, v := range e.Thorough {
				bounds[k] = v
			}
		}
		if bounds == nil {
			bounds = map[string]int{}
		}
		bounds["seed"] = seed
		entry, err := prog.Entry(e.Pkg, e.Func)
		if err != nil {
			fmt.Fprintln(os.Stderr, err)
			problems = append(problems, err.Error())
			continue
		}
		cfg := interp.Config{MapOrderAll: e.MapOrderAll, MapOrderRotations: e.MapRotations, MapOrderSeeds: e.MapOrderSeeds, SymbolicNanos: e.SymbolicNanos, Bounds: bounds, KnownOpen: knownOpen, MaxSteps: e.MaxSteps, SolverKind: e.Solver, Trace: *verbose, SyncFiles: e.SyncFiles, CallDepthCrash: e.CallDepthCrash}
		if *tier == "thorough" {
			cfg.TimeoutMs = 120000
		}
		maxSec := e.MaxSeconds
		if maxSec == 0 {
			maxSec = 600
			if *tier == "thorough" {
				maxSec = 3000
			}
		}
		rep, err := interp.Explore(prog.Prog, entry, cfg, interp.ExploreOpts{Workers: *workers, MaxPaths: e.MaxPaths, Verbose: *verbose,
			Deadline: time.Now().Add(time.Duration(maxSec) * time.Second)})
		if err != nil {
			fmt.Fprintln(os.Stderr, err)
			problems = append(problems, err.Error())
			continue
		}
		totalPaths += rep.Paths
		totalDecisions += rep.Decisions
		distinct += len(rep.PathSigs)
		assertsTotal += rep.Asserts
		assertsSym += rep.AssertsSym
		solverQueries += rep.Solver.Queries
		solverSat += rep.Solver.Sat
		solverUnsat += rep.Solver.Unsat
		solverUnknown += rep.Solver.Unknown
		solverTime += rep.Solver.Time
		for k, v := range rep.Funcs {
			funcsAll[k] += v
		}
		for k, v := range rep.Stubs {
			stubsAll[k] += v
		}
		for _, s := range rep.Samples {
			if len(samples) < 10 {
				samples = append(samples, map[string]interface{}{"entry": e.Func, "path": s})
			}
		}
		if rep.Truncated {
			problems = append(problems, e.Func+": exploration truncated (path or time limit) — reduce the bound")
		}
		for msg, n := range rep.Unsupported {
			problems = append(problems, fmt.Sprintf("%s: %d path(s) hit unsupported operation: %s", e.Func, n, msg))
		}
		for msg, n := range rep.Bounds {
			problems = append(problems, fmt.Sprintf("%s: %d path(s) exhausted a bound: %s", e.Func, n, msg))
		}
		if rep.Unknowns > 0 {
			problems = append(problems, fmt.Sprintf("%s: %d solver answers unknown", e.Func, rep.Unknowns))
		}
		if rep.Solver.Errors > 0 {
			problems = append(problems, fmt.Sprintf("%s: %d solver error lines", e.Func, rep.Solver.Errors))
		}
		for _, c := range e.Covers {
			if rep.Covers[c] == 0 {
				problems = append(problems, fmt.Sprintf("%s: cover point %q not reached (vacuity guard)", e.Func, c))
			}
		}
		if rep.Asserts == 0 && len(rep.Violations) == 0 {
			problems = append(problems, e.Func+": no assertion was reached")
		}
		for msg, n := range rep.Panics {
			// a panic escaping the harness entry is itself a violation of "no crash" unless the harness catches it
			problems = append(problems, fmt.Sprintf("%s: %d path(s) ended in an uncaught panic: %s", e.Func, n, msg))
		}
		// violations
		// group new violations by assertion label; per label up to 5 different witnesses are replayed
		// natively until one reproduces (a witness can depend on the symbolic clock and not replay)
		byLabel := map[string][]int{}
		var labelOrder []string
		for i, v := range rep.Violations {
			if v.Known != "" {
				if !knownPrinted[v.Known] {
					knownPrinted[v.Known] = true
					fmt.Printf("KNOWN-FINDING: property=%s %s: %s\n", id, v.Known, knownByID[v.Known].What)
				}
				continue
			}
			if len(byLabel[v.Label]) == 0 {
				labelOrder = append(labelOrder, v.Label)
			}
			byLabel[v.Label] = append(byLabel[v.Label], i)
		}
		for _, label := range labelOrder {
			cands := byLabel[label]
			if len(cands) > 5 {
				// spread the attempts over the explored paths
				step := len(cands) / 5
				cands = []int{cands[0], cands[step], cands[2*step], cands[3*step], cands[len(cands)-1]}
			}
			confirmed, detail, firstPath := false, "", ""
			for _, i := range cands {
				v := rep.Violations[i]
				rf := ReplayFile{Property: id, Pkg: e.Pkg, Func: e.Func, Label: v.Label, Nondet: v.Nondet, Bounds: bounds,
					Decisions: v.Decisions, Observed: v.Observed, SyncFiles: e.SyncFiles, KnownOpen: sortedKeys(knownOpen)}
				dir := filepath.Join(VerifDir, "replays", id)
				os.MkdirAll(dir, 0o755)
				path := filepath.Join(dir, fmt.Sprintf("%s-%s-%d.json", e.Func, sanitize(v.Label), i))
				data, _ := json.MarshalIndent(rf, "", " ")
				os.WriteFile(path, data, 0o644)
				if firstPath == "" {
					firstPath = path
				}
				ok, d := true, ""
				if !*noReplay {
					replays++
					ok, d = NativeReplay(rf, path)
				}
				if ok {
					if !*noReplay {
						replaysOK++
					}
					confirmed = true
					violations++
					fmt.Printf("VIOLATION property=%s replay=%s\n", id, path)
					fmt.Printf("  assertion %q fails in %s; witness: %s\n", v.Label, e.Func, witnessString(v))
					break
				}
				if detail == "" {
					detail = d
				}
			}
			if !confirmed {
				problems = append(problems, fmt.Sprintf("%s: counterexample for %q did not reproduce natively (%s; %d witnesses tried) — encoding or stub suspected; replay file %s", e.Func, label, detail, len(cands), firstPath))
				fmt.Printf("UNCONFIRMED property=%s label=%s replay=%s (%s)\n", id, label, firstPath, detail)
			}
		}
		stMax := 3
		if *tier == "thorough" {
			stMax = 12
		}
		stAgree, stTotal := 0, 0
		if !*noReplay {
			var stProblems []string
			stAgree, stTotal, stProblems = SelfTest(id, e, bounds, rep.SelfTests, stMax)
			problems = append(problems, stProblems...)
			selfAgree += stAgree
			selfTotal += stTotal
		}
		entriesEv = append(entriesEv, map[string]interface{}{
			"native_vs_interpreter_paths_agreeing": stAgree, "native_vs_interpreter_paths_run": stTotal,
			"entry": e.Pkg + "." + e.Func, "bounds": bounds, "paths": rep.Paths, "path_ends": rep.Ends, "decisions": rep.Decisions,
			"instructions_interpreted": rep.Steps, "assertions_discharged": rep.Asserts, "assertions_decided_by_solver": rep.AssertsSym,
			"cover_points": rep.Covers, "solver_queries": rep.Solver.Queries, "solver_time_s": rep.Solver.Time.Seconds(),
			"max_query_s": rep.Solver.MaxQuery.Seconds(), "wall_s": rep.Wall.Seconds(), "map_order_all": e.MapOrderAll,
			"violations_found": len(rep.Violations), "init_problems": rep.InitProblems,
		})
		if *verbose {
			fmt.Fprintf(os.Stderr, "%s: paths=%d ends=%v asserts=%d/%d queries=%d solver=%.1fs wall=%.1fs\n", e.Func, rep.Paths, rep.Ends,
				rep.AssertsSym, rep.Asserts, rep.Solver.Queries, rep.Solver.Time.Seconds(), rep.Wall.Seconds())
		}
	}

	// evidence
	var encoded, stubs []string
	for k := range funcsAll {
		if strings.Contains(k, "heimdall") && !strings.Contains(k, "Verif") && !strings.Contains(k, "verif") {
			encoded = append(encoded, k)
		}
	}
	sort.Strings(encoded)
	nLib := len(funcsAll) - len(encoded)
	for k := range stubsAll {
		if !strings.Contains(k, "verifapi") {
			stubs = append(stubs, k)
		}
	}
	sort.Strings(stubs)
	ev.Violations = violations
	if totalPaths < 1 {
		totalPaths = 0
	}
	ev.Coverage["states"] = totalPaths
	ev.Coverage["transitions"] = totalDecisions
	ev.Coverage["traces_validated_against_impl"] = selfAgree
	ev.Coverage["traces_validated_note"] = "explored paths re-run natively (go test -overlay, real build) on their solver witness; cover points compared with the interpreter"
	ev.Coverage["native_self_test_paths_run"] = selfTotal
	ev.Coverage["counterexamples_confirmed_natively"] = replaysOK
	ev.Coverage["native_replays_attempted"] = replays
	ev.Coverage["evaluations"] = totalPaths
	ev.Coverage["distinct_nontrivial"] = distinct
	ev.Coverage["rule"] = "one evaluation = one feasible symbolic path of a harness entry (a path condition with a satisfying model; it stands for all inputs satisfying it); distinct = different (end kind, cover points) signatures"
	if len(samples) == 0 {
		samples = append(samples, "no path explored")
	}
	ev.Coverage["samples"] = samples
	ev.Coverage["entries"] = entriesEv
	ev.Coverage["functions_encoded_heimdall"] = encoded
	ev.Coverage["functions_encoded_library_count"] = nLib
	ev.Coverage["intrinsics_and_stubs_hit"] = stubs
	ev.Coverage["assertion_obligations"] = assertsTotal
	ev.Coverage["assertion_obligations_decided_by_solver"] = assertsSym
	ev.Coverage["solver"] = map[string]interface{}{"kind": "z3 4.8.12 (-in, incremental); fallback z3-new 5.1.0, cvc5", "queries": solverQueries,
		"sat": solverSat, "unsat": solverUnsat, "unknown": solverUnknown, "time_s": solverTime.Seconds()}
	ev.Coverage["load_s"] = loadTime.Seconds()
	ev.Coverage["bounds_note"] = spec.Bounds
	ev.Coverage["outside_claim"] = spec.Outside
	ev.Coverage["known_findings_reported"] = keys(knownPrinted)
	ev.Coverage["explanation"] = fmt.Sprintf("symbolic execution of the real code from go/ssa (regenerated from /repo on this run): %d paths; a path is a feasible valuation class of the symbolic inputs and enumerated choices (feasibility of every branch side decided by the SMT solver: %d queries). Of %d assertion obligations, %d needed a solver query (path condition AND NOT assertion unsat) and %d simplified to true under the path's branch decisions; where both numbers of solver work are 0 the entry has no symbolic data and the exploration is an exhaustive enumeration of its choice points within the stated bounds",
		totalPaths, solverQueries, assertsTotal, assertsSym, assertsTotal-assertsSym)
	ev.Coverage["exhaustive"] = len(problems) == 0

	code := 0
	if violations > 0 {
		code = 1
	} else if len(problems) > 0 {
		code = 2
		for _, p := range problems {
			fmt.Fprintln(os.Stderr, "INCONCLUSIVE:", p)
		}
	}
	fmt.Fprintf(os.Stderr, "%s %s: paths=%d assertions=%d (solver-decided %d) queries=%d violations=%d known=%d wall=%.1fs exit=%d\n",
		id, *tier, totalPaths, assertsTotal, assertsSym, solverQueries, violations, len(knownPrinted), time.Since(t0).Seconds(), code)
	return finish(code, problems)
}

func keys(m map[string]bool) []string {
	r := []string{}
	for k := range m {
		r = append(r, k)
	}
	sort.Strings(r)
	return r
}

func sanitize(s string) string {
	var sb strings.Builder
	for _, r := range s {
		if (r >= 'a' && r <= 'z') || (r >= 'A' && r <= 'Z') || (r >= '0' && r <= '9') || r == '-' {
			sb.WriteRune(r)
		} else {
			sb.WriteByte('_')
		}
	}
	return sb.String()
}

func witnessString(v interp.Violation) string {
	var parts []string
	names := append([]string(nil), v.Order...)
	for k := range v.Nondet {
		if strings.HasPrefix(k, "choice:") {
			names = append(names, k)
		}
	}
	for i, n := range names {
		if i >= 24 {
			parts = append(parts, "…")
			break
		}
		parts = append(parts, fmt.Sprintf("%s=%d", n, int64(v.Nondet[n])))
	}
	return strings.Join(parts, " ")
}

// ---- evidence ----

type Evidence struct {
	PropertyID  string                 `json:"property_id"`
	Tier        string                 `json:"tier"`
	Seed        int                    `json:"seed"`
	Level       string                 `json:"level"`
	Coverage    map[string]interface{} `json:"coverage"`
	Assumptions []string               `json:"assumptions"`
	WallS       float64                `json:"wall_s"`
	Violations  int                    `json:"violations"`
}

func newEvidence(id, tier string, seed int) *Evidence {
	return &Evidence{PropertyID: id, Tier: tier, Seed: seed, Level: "model_checking", Coverage: map[string]interface{}{}}
}

func writeEvidence(id string, ev *Evidence) {
	os.MkdirAll(filepath.Join(VerifDir, "evidence"), 0o755)
	data, _ := json.MarshalIndent(ev, "", " ")
	os.WriteFile(filepath.Join(VerifDir, "evidence", id+".json"), data, 0o644)
}

// ---- native replay ----

// nativeBuild compiles the harness of pkg into a test binary (go test -c -overlay).
// instrumentSync writes a copy of a file under test with sync.Mutex / sync.RWMutex replaced by the
// scheduler-aware shims of verifapi (regenerated from the current source on every build).
func instrumentSync(rel, tmp string) (string, error) {
	data, err := os.ReadFile(filepath.Join(RepoDir, rel))
	if err != nil {
		return "", err
	}
	src := string(data)
	src = strings.ReplaceAll(src, "sync.RWMutex", "verifapi.RWMutex")
	src = strings.ReplaceAll(src, "sync.Mutex", "verifapi.Mutex")
	if !regexp.MustCompile(`\bsync\.`).MatchString(src) {
		src = regexp.MustCompile(`(?m)^\s*"sync"\n`).ReplaceAllString(src, "")
	}
	if !strings.Contains(src, Module+"/internal/verifapi\"") {
		if strings.Contains(src, "import (") {
			src = strings.Replace(src, "import (", "import (\n\t\""+Module+"/internal/verifapi\"", 1)
		} else {
			src = regexp.MustCompile(`(?m)^package .*$`).ReplaceAllString(src, "$0\n\nimport \""+Module+"/internal/verifapi\"")
		}
	}
	out := filepath.Join(tmp, "sync_"+sanitize(rel)+".go")
	return out, os.WriteFile(out, []byte(src), 0o644)
}

func nativeBuild(pkg, entry, tmp string, syncFiles []string, race bool) (string, string) {
	harnessDir := filepath.Join(VerifDir, "harness")
	replace := map[string]string{}
	filepath.Walk(harnessDir, func(p string, info os.FileInfo, err error) error {
		if err == nil && !info.IsDir() && strings.HasSuffix(p, ".go") {
			rel, _ := filepath.Rel(harnessDir, p)
			replace[filepath.Join(RepoDir, rel)] = p
		}
		return nil
	})
	for _, sf := range syncFiles {
		inst, err := instrumentSync(sf, tmp)
		if err != nil {
			return "", "instrumenting " + sf + ": " + err.Error()
		}
		replace[filepath.Join(RepoDir, sf)] = inst
	}
	pkgName, err := packageName(filepath.Join(RepoDir, pkg))
	if err != nil {
		pkgName, err = packageName(filepath.Join(harnessDir, pkg))
	}
	if err != nil {
		return "", err.Error()
	}
	testSrc := fmt.Sprintf("//go:build verif\n\npackage %s\n\nimport (\n\t\"testing\"\n\n\t\"%s/internal/verifapi\"\n)\n\nfunc TestVerifReplay(t *testing.T) { verifapi.RunReplay(t, %s) }\n", pkgName, Module, entry)
	testFile := filepath.Join(tmp, "zz_verif_replay_test.go")
	os.WriteFile(testFile, []byte(testSrc), 0o644)
	replace[filepath.Join(RepoDir, pkg, "zz_verif_replay_test.go")] = testFile
	ovData, _ := json.Marshal(map[string]interface{}{"Replace": replace})
	ovFile := filepath.Join(tmp, "overlay.json")
	os.WriteFile(ovFile, ovData, 0o644)
	bin := filepath.Join(tmp, "replay.test")
	args := []string{"test", "-c", "-o", bin, "-tags", "verif", "-vet=off", "-overlay", ovFile}
	if race {
		args = append(args, "-race")
	}
	build := exec.Command("go", append(args, "./"+pkg+"/")...)
	build.Dir = RepoDir
	build.Env = append(os.Environ(), "GOFLAGS=-mod=readonly", "GOPROXY=off", "GOSUMDB=off", "GOTOOLCHAIN=local")
	if race {
		build.Env = append(build.Env, "CGO_ENABLED=1")
	}
	if bout, err := build.CombinedOutput(); err != nil {
		return "", "native build of the harness failed: " + truncateStr(string(bout), 600)
	}
	return bin, ""
}

func uniqSorted(xs []string) []string {
	seen := map[string]bool{}
	var r []string
	for _, x := range xs {
		if !seen[x] {
			seen[x] = true
			r = append(r, x)
		}
	}
	sort.Strings(r)
	return r
}

func truncateStr(s string, n int) string {
	if len(s) > n {
		return s[:n] + "…"
	}
	return s
}

func nativeRun(bin, pkg, tmp, replayPath string) string {
	cmd := exec.Command(bin, "-test.run", "^TestVerifReplay$", "-test.count=1", "-test.timeout", "300s")
	cmd.Dir = filepath.Join(RepoDir, pkg)
	if _, err := os.Stat(cmd.Dir); err != nil {
		cmd.Dir = tmp
	}
	cmd.Env = append(os.Environ(), "VERIF_REPLAY="+replayPath)
	out, _ := cmd.CombinedOutput()
	return string(out)
}

// NativeReplay compiles the harness into the real package (go test -overlay)
// and runs the entry on the concrete values of the counterexample.
func NativeReplay(rf ReplayFile, path string) (bool, string) {
	tmp, err := os.MkdirTemp("", "verif-replay-")
	if err != nil {
		return false, err.Error()
	}
	defer os.RemoveAll(tmp)
	race := strings.HasSuffix(rf.Label, "/no-data-race")
	bin, problem := nativeBuild(rf.Pkg, rf.Func, tmp, rf.SyncFiles, race)
	if problem != "" {
		os.WriteFile(path+".log", []byte(problem), 0o644)
		return false, problem
	}
	if race {
		// a data race is confirmed by Go's race detector on free-running goroutines (a replayed
		// schedule orders all operations and would hide it): same inputs, schedule entries removed
		free := rf
		free.Nondet = map[string]uint64{}
		for k, v := range rf.Nondet {
			if !strings.HasPrefix(k, "sched") {
				free.Nondet[k] = v
			}
		}
		fp := filepath.Join(tmp, "free.json")
		data, _ := json.Marshal(free)
		os.WriteFile(fp, data, 0o644)
		var txt string
		for i := 0; i < 25; i++ {
			txt = nativeRun(bin, rf.Pkg, tmp, fp)
			if strings.Contains(txt, "WARNING: DATA RACE") {
				os.WriteFile(path+".log", []byte(txt), 0o644)
				return true, fmt.Sprintf("data race reported by the Go race detector (free run %d)", i+1)
			}
		}
		os.WriteFile(path+".log", []byte(txt), 0o644)
		return false, "Go race detector silent in 25 free runs"
	}
	txt := nativeRun(bin, rf.Pkg, tmp, path)
	os.WriteFile(path+".log", []byte(txt), 0o644)
	for _, ln := range strings.Split(txt, "\n") {
		if strings.HasPrefix(ln, "REPLAY-FAILED: ") {
			got := strings.TrimPrefix(ln, "REPLAY-FAILED: ")
			if got == rf.Label {
				return true, "assertion " + got + " failed natively"
			}
			if got == "panic" && strings.Contains(rf.Label, "panic") {
				return true, "panic reproduced natively"
			}
		}
	}
	if strings.Contains(txt, "fatal error: stack overflow") && (strings.Contains(rf.Label, "crash") || strings.Contains(rf.Label, "panic")) {
		return true, "the native run dies with 'fatal error: stack overflow'"
	}
	for _, ln := range strings.Split(txt, "\n") {
		if strings.HasPrefix(ln, "REPLAY-") || strings.Contains(ln, "FAIL") || strings.Contains(ln, "panic") {
			return false, strings.TrimSpace(ln)
		}
	}
	if strings.Contains(txt, "PASS") {
		return false, "native run passed"
	}
	return false, "native run inconclusive (see " + path + ".log)"
}

// SelfTest runs explored paths natively on their witness values and compares cover points and
// observations with what the interpreter saw (translator validation). Returns agreeing, total, problems.
func SelfTest(id string, e EntrySpec, bounds map[string]int, cases []interp.SelfTestCase, max int) (int, int, []string) {
	if len(cases) > max {
		cases = cases[:max]
	}
	if len(cases) == 0 {
		return 0, 0, nil
	}
	tmp, err := os.MkdirTemp("", "verif-selftest-")
	if err != nil {
		return 0, len(cases), []string{err.Error()}
	}
	defer os.RemoveAll(tmp)
	bin, problem := nativeBuild(e.Pkg, e.Func, tmp, e.SyncFiles, false)
	if problem != "" {
		return 0, len(cases), []string{"self-test: " + problem}
	}
	agree := 0
	var problems []string
	for i, c := range cases {
		rf := ReplayFile{Property: id, Pkg: e.Pkg, Func: e.Func, Label: "selftest", Nondet: c.Nondet, Bounds: bounds, KnownOpen: knownOpenIDs(id)}
		path := filepath.Join(tmp, fmt.Sprintf("case%d.json", i))
		data, _ := json.Marshal(rf)
		os.WriteFile(path, data, 0o644)
		txt := nativeRun(bin, e.Pkg, tmp, path)
		var covers, observed, failed []string
		for _, ln := range strings.Split(txt, "\n") {
			switch {
			case strings.HasPrefix(ln, "REPLAY-COVER: "):
				covers = append(covers, strings.TrimPrefix(ln, "REPLAY-COVER: "))
			case strings.HasPrefix(ln, "REPLAY-OBSERVED: "):
				observed = append(observed, strings.TrimPrefix(ln, "REPLAY-OBSERVED: "))
			case strings.HasPrefix(ln, "REPLAY-FAILED: "), strings.HasPrefix(ln, "REPLAY-STOP: "), strings.HasPrefix(ln, "REPLAY-PANIC: "):
				failed = append(failed, ln)
			}
		}
		ok := len(failed) == 0 && strings.Join(uniqSorted(covers), ",") == strings.Join(uniqSorted(c.Covers), ",") && strings.Contains(txt, "PASS")
		if ok {
			agree++
		} else {
			problems = append(problems, fmt.Sprintf("%s: native run of an explored path disagrees with the interpreter: covers native=%v interpreter=%v %v (witness %v)",
				e.Func, covers, c.Covers, failed, truncateStr(fmt.Sprint(c.Nondet), 300)))
		}
		_ = observed
	}
	return agree, len(cases), problems
}

func packageName(dir string) (string, error) {
	ents, err := os.ReadDir(dir)
	if err != nil {
		return "", err
	}
	for _, e := range ents {
		if strings.HasSuffix(e.Name(), ".go") && !strings.HasSuffix(e.Name(), "_test.go") {
			data, err := os.ReadFile(filepath.Join(dir, e.Name()))
			if err != nil {
				continue
			}
			for _, ln := range strings.Split(string(data), "\n") {
				if strings.HasPrefix(ln, "package ") {
					return strings.Fields(ln)[1], nil
				}
			}
		}
	}
	return "", fmt.Errorf("no package clause found in %s", dir)
}

func CmdReplay(args []string) int {
	if len(args) < 1 {
		fmt.Fprintln(os.Stderr, "usage: verif replay <replay file>")
		return 2
	}
	var rf ReplayFile
	if err := loadJSON(args[0], &rf); err != nil {
		fmt.Fprintln(os.Stderr, err)
		return 2
	}
	abs, _ := filepath.Abs(args[0])
	ok, detail := NativeReplay(rf, abs)
	fmt.Println(detail)
	if data, err := os.ReadFile(abs + ".log"); err == nil {
		for _, ln := range strings.Split(string(data), "\n") {
			if strings.HasPrefix(ln, "REPLAY-") {
				fmt.Println(ln)
			}
		}
	}
	if ok {
		fmt.Printf("VIOLATION property=%s replay=%s\n", rf.Property, abs)
		return 1
	}
	return 0
}

func sortedKeys(m map[string]bool) []string {
	var r []string
	for k, v := range m {
		if v {
			r = append(r, k)
		}
	}
	sort.Strings(r)
	return r
}

// knownOpenIDs reads the ids of the open findings of a property from the committed file.
func knownOpenIDs(id string) []string {
	var known []KnownFinding
	loadJSON(filepath.Join(VerifDir, "known_findings.json"), &known)
	var r []string
	for _, k := range known {
		if k.Status == "open" && k.Property == id {
			r = append(r, k.ID)
		}
	}
	sort.Strings(r)
	return r
}
