// Package driver loads the real code, explores harness entries and reports.
package driver

import (
	"fmt"
	"os"
	"path/filepath"
	"strings"

	"golang.org/x/tools/go/packages"
	"golang.org/x/tools/go/ssa"
	"golang.org/x/tools/go/ssa/ssautil"
)

const RepoDir = "/repo"
const Module = "github.com/dadrus/heimdall"

// Overlay maps every file under harnessDir to its place in the repository.
func Overlay(harnessDir string) (map[string][]byte, error) {
	ov := map[string][]byte{}
	err := filepath.Walk(harnessDir, func(p string, info os.FileInfo, err error) error {
		if err != nil {
			return err
		}
		if info.IsDir() || !strings.HasSuffix(p, ".go") {
			return nil
		}
		rel, _ := filepath.Rel(harnessDir, p)
		data, err := os.ReadFile(p)
		if err != nil {
			return err
		}
		ov[filepath.Join(RepoDir, rel)] = data
		return nil
	})
	return ov, err
}

type Program struct {
	Prog *ssa.Program
	Pkgs []*packages.Package
	SSA  []*ssa.Package
}

// Load type-checks the given heimdall packages (relative import paths) with
// the harness overlay and creates (not yet builds) the SSA program.
func Load(harnessDir string, pkgPaths []string) (*Program, error) {
	ov, err := Overlay(harnessDir)
	if err != nil {
		return nil, err
	}
	patterns := []string{Module + "/internal/verifapi"}
	for _, p := range pkgPaths {
		patterns = append(patterns, Module+"/"+p)
	}
	cfg := &packages.Config{
		Mode: packages.NeedName | packages.NeedFiles | packages.NeedCompiledGoFiles | packages.NeedImports |
			packages.NeedDeps | packages.NeedTypes | packages.NeedSyntax | packages.NeedTypesInfo |
			packages.NeedTypesSizes | packages.NeedModule,
		Dir:        RepoDir,
		BuildFlags: []string{"-tags=verif", "-mod=readonly"},
		Overlay:    ov,
		Env:        append(os.Environ(), "GOFLAGS=-mod=readonly", "GOPROXY=off", "GOSUMDB=off", "GOTOOLCHAIN=local", "CGO_ENABLED=0"),
	}
	pkgs, err := packages.Load(cfg, patterns...)
	if err != nil {
		return nil, err
	}
	var errs []string
	packages.Visit(pkgs, nil, func(p *packages.Package) {
		for _, e := range p.Errors {
			errs = append(errs, e.Error())
		}
	})
	if len(errs) > 0 {
		if len(errs) > 20 {
			errs = errs[:20]
		}
		return nil, fmt.Errorf("package load errors (the tree does not compile with the harness):\n%s", strings.Join(errs, "\n"))
	}
	prog, spkgs := ssautil.AllPackages(pkgs, ssa.InstantiateGenerics)
	// build every function body up front: lazy building from several workers races
	prog.Build()
	return &Program{Prog: prog, Pkgs: pkgs, SSA: spkgs}, nil
}

// Entry finds the harness function pkgPath.name.
func (p *Program) Entry(pkgPath, name string) (*ssa.Function, error) {
	full := Module + "/" + pkgPath
	for _, sp := range p.Prog.AllPackages() {
		if sp.Pkg.Path() == full {
			sp.Build()
			if f := sp.Func(name); f != nil {
				return f, nil
			}
			return nil, fmt.Errorf("function %s not found in %s", name, full)
		}
	}
	return nil, fmt.Errorf("package %s not loaded", full)
}
